#!/bin/bash
# seed_confirm_all.sh ID...  -- runs seed confirmations (no detection) for the given seeded ids, up to 3 at a time
cd /verif
printf '%s\n' "$@" | xargs -P 3 -I{} bash -c 'p=${1%-*}; n=${1##*-}; SEED_J=5 python3 mk/seed_import.py "$p" "$n" "$(python3 -c "import json;print(json.load(open(\"seeded/$1/meta.json\"))[\"summary\"])")" "$(python3 -c "import json;print(json.load(open(\"seeded/$1/meta.json\"))[\"needs_to_manifest\"])")" --no-detect --src seeded/$1 2>&1 | sed "s/^/[$1] /"' _ {}
