#!/bin/bash
# build_h3.sh <variant> <outdir>
# Compiles /repo/src/h3lib/lib/*.c (current working tree) into <outdir>/libh3.a and
# generates <outdir>/h3api.h from h3api.h.in. Nothing is cached: every call recompiles.
# variants: opt | san | alloc | allocsan | tsan | trap | sched
set -e
variant=$1; out=$2
REPO=${VERIF_REPO:-/repo}
[ -n "$variant" ] && [ -n "$out" ] || { echo "usage: build_h3.sh variant outdir" >&2; exit 2; }
rm -rf "$out"; mkdir -p "$out"
ver=$(cat $REPO/VERSION 2>/dev/null || echo 4.2.1)
maj=${ver%%.*}; rest=${ver#*.}; min=${rest%%.*}; pat=${rest#*.}
sed -e "s/@H3_VERSION_MAJOR@/$maj/;s/@H3_VERSION_MINOR@/$min/;s/@H3_VERSION_PATCH@/$pat/" \
    $REPO/src/h3lib/include/h3api.h.in > "$out/h3api.h"
INC="-I$out -I$REPO/src/h3lib/include"
# hooks: the guard UBER_H3_VERIF is always defined for verification builds (no hook code exists today)
COMMON="-std=c99 -g -DUBER_H3_VERIF=1 -fno-omit-frame-pointer"
case $variant in
  opt)      CC=gcc;   FL="-O2" ;;
  san)      CC=clang; FL="-O1 -fsanitize=address,undefined,float-cast-overflow -fno-sanitize-recover=all" ;;
  alloc)    CC=gcc;   FL="-O2 -DH3_PREFIX= -DH3_ALLOC_PREFIX=vf_" ;;
  allocsan) CC=clang; FL="-O1 -fsanitize=address,undefined -fno-sanitize-recover=all -DH3_PREFIX= -DH3_ALLOC_PREFIX=vf_" ;;
  tsan)     CC=clang; FL="-O1 -fsanitize=thread -DH3_PREFIX= -DH3_ALLOC_PREFIX=vf_" ;;
  trap)     CC=gcc;   FL="-O2 -fno-pic -fno-pie -fno-common -DH3_PREFIX= -DH3_ALLOC_PREFIX=vf_" ;;
  sched)    CC=gcc;   FL="-O2 -finstrument-functions -DH3_PREFIX= -DH3_ALLOC_PREFIX=vf_" ;;
  *) echo "unknown variant $variant" >&2; exit 2 ;;
esac
pids=()
for f in $REPO/src/h3lib/lib/*.c; do
  b=$(basename "$f" .c)
  $CC $COMMON $FL $INC -c "$f" -o "$out/$b.o" &
  pids+=($!)
done
rc=0
for p in "${pids[@]}"; do wait $p || rc=1; done
[ $rc = 0 ] || { echo "build_h3: compile failed" >&2; exit 2; }
ar rcs "$out/libh3.a" "$out"/*.o
echo "$CC $FL" > "$out/flags"
if [ "$variant" = alloc ] || [ "$variant" = allocsan ]; then
  # reference copy of the library with the default allocator, every public function prefixed ref_, all other
  # symbols made local, so that it can be linked next to the ledger-allocator build
  mkdir -p "$out/ref"
  pids=()
  for f in $REPO/src/h3lib/lib/*.c; do
    b=$(basename "$f" .c)
    gcc $COMMON -O2 -DH3_PREFIX=ref_ $INC -c "$f" -o "$out/ref/$b.o" &
    pids+=($!)
  done
  for p in "${pids[@]}"; do wait $p || rc=1; done
  [ $rc = 0 ] || { echo "build_h3: ref compile failed" >&2; exit 2; }
  ld -r -o "$out/ref_all.tmp.o" "$out"/ref/*.o && objcopy --wildcard -G 'ref_*' "$out/ref_all.tmp.o" "$out/ref_all.o" || exit 2
  rm -rf "$out/ref" "$out/ref_all.tmp.o"
fi
