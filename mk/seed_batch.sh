#!/bin/bash
# seed_batch.sh <tsv>  -- detection (no confirmation) for every line prop|n|summary|needs|checks, sequentially (uses /repo)
cd /verif
while IFS='|' read -r p n sum needs checks; do
  [ -n "$p" ] || continue
  python3 mk/seed_import.py "$p" "$n" "$sum" "$needs" --checks "$checks" --no-confirm 2>&1 | grep -v WARNING
done < "$1"
