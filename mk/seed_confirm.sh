#!/bin/bash
# seed_confirm.sh <seeded/ID>  -- confirms a seeded change in a scratch worktree outside /repo and /verif:
#   clean tree: demo passes; with patch: library + tests build, the full ctest suite passes, demo fails.
# Prints a JSON object; removes the worktree and its build output afterwards.
S=$(readlink -f "$1"); [ -f "$S/patch.diff" ] || { echo "no patch.diff in $S" >&2; exit 2; }
WT=/tmp/seedwt-$$-$(basename "$S")
trap 'git -C /repo worktree remove --force "$WT" >/dev/null 2>&1; rm -rf "$WT"' EXIT
git -C /repo worktree add --detach "$WT" HEAD -q || exit 2
build_demo() {
  if [ -x "$S/build.sh" ]; then "$S/build.sh" "$WT" "$WT/demo_bin" >"$WT/demo_build.log" 2>&1
  else gcc -O1 -I "$WT/_build/src/h3lib/include" "$S/demo.c" "$WT/_build/lib/libh3.a" -lm -lpthread -o "$WT/demo_bin" >"$WT/demo_build.log" 2>&1; fi
}
cmake -G Ninja -B "$WT/_build" -DCMAKE_BUILD_TYPE=RelWithDebInfo "$WT" >/dev/null 2>&1 && cmake --build "$WT/_build" >/dev/null 2>&1 || { echo '{"error":"clean build failed"}'; exit 2; }
build_demo || { echo '{"error":"demo build failed on clean tree"}'; cat "$WT/demo_build.log" >&2; exit 2; }
( cd "$WT" && timeout 600 ./demo_bin >"$WT/demo_clean.out" 2>&1 ); rc_clean=$?
git -C "$WT" apply "$S/patch.diff" || { echo '{"error":"patch does not apply"}'; exit 2; }
cmake --build "$WT/_build" >"$WT/build.log" 2>&1 || { echo '{"error":"build with patch failed"}'; tail -5 "$WT/build.log" >&2; exit 2; }
ctest --test-dir "$WT/_build" -j${SEED_J:-8} --timeout 900 >"$WT/ctest.log" 2>&1
summary=$(grep "tests passed" "$WT/ctest.log" | tail -1)
failed=$(grep -c "\*\*\*Failed\|\*\*\*Timeout\|\*\*\*Exception" "$WT/ctest.log")
build_demo || { echo '{"error":"demo build failed on patched tree"}'; exit 2; }
( cd "$WT" && timeout 600 ./demo_bin >"$WT/demo_patched.out" 2>&1 ); rc_pat=$?
python3 - "$rc_clean" "$rc_pat" "$summary" "$failed" "$WT/demo_clean.out" "$WT/demo_patched.out" <<'PY'
import json,sys
rc_clean,rc_pat,summary,failed,fc,fp=sys.argv[1:]
print(json.dumps({"demo_exit_clean":int(rc_clean),"demo_exit_patched":int(rc_pat),"ctest_with_patch":summary.strip(),"ctest_failed":int(failed),
 "demo_clean_tail":open(fc,errors='replace').read()[-300:],"demo_patched_tail":open(fp,errors='replace').read()[-500:],
 "confirmed": int(rc_clean)==0 and int(rc_pat)!=0 and int(failed)==0 and "100% tests passed" in summary}))
PY
