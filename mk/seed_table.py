#!/usr/bin/env python3
"""Prints a markdown table of /verif/seeded/*/meta.json for DESIGN.md §8."""
import json, glob, os
rows = []
for d in sorted(glob.glob('/verif/seeded/*/')):
    mp = os.path.join(d, 'meta.json')
    if not os.path.exists(mp): continue
    m = json.load(open(mp))
    conf = m.get('confirmation', {})
    c = 'yes' if conf.get('confirmed') else ('pending' if not conf else 'NO: ' + str(conf.get('error', conf))[:60])
    det = []
    for x in m.get('detection', []):
        det.append('%s %s' % (x['check'], 'caught' if x.get('detected') else 'missed'))
    hist = m.get('history', '')
    rows.append('| %s | %s | %s | %s | %s | %s |' % (m['id'], m['summary'].replace('|', '/'), m['needs_to_manifest'].replace('|', '/'), c, '; '.join(det), hist))
print('| seed | change | needs, to manifest | confirmed (280 tests pass, demo fails only with the change) | quick checks | note |')
print('|---|---|---|---|---|---|')
print('\n'.join(rows))
