#!/bin/bash
# c18.sh <ID> <builddir> [--tier quick|thorough] [--replay FILE] [--deadline S]
# C18 is decided by three binaries built from src/c18_reentrant.c against three builds of /repo's working tree:
#   trap  : write-trap on the library's renamed .data/.bss   (deciding, part 1)
#   sched : preemption-bounded schedule exploration + history (deciding, parts 2+3)
#   tsan  : free-running ThreadSanitizer pass                 (supporting)
# plus a static check of the library's undefined symbols against a deny-list of non-re-entrant libc functions.
id=$1; B=$2; shift 2
V=$(cd "$(dirname "$(readlink -f "$0")")/.." && pwd)
cd "$V" || exit 2
tier=${VERIF_TIER:-quick}; replay=""; deadline=""
while [ $# -gt 0 ]; do
  case $1 in
    --tier) tier=$2; shift 2 ;;
    --replay) replay=$2; shift 2 ;;
    --deadline) deadline=$2; shift 2 ;;
    *) shift ;;
  esac
done
[ "$tier" = thorough ] || tier=quick
t0=$(date +%s.%N)
parts=${C18_PARTS:-symbols trap sched tsan}
if [ -n "$replay" ]; then
  parts=$(sed -n 's/.*"part": "\([a-z]*\)".*/\1/p' "$replay" | head -1)
  [ -n "$parts" ] || { echo "no part in $replay" >&2; exit 2; }
fi
mkdir -p "$B" replay/C18 evidence
rm -f "$B"/part-*.json
SRC=src/c18_reentrant.c
HFL="-std=gnu11 -Wall -Wno-unused-function -Wno-unused-variable -Wno-unused-but-set-variable -I$V/src"
rc=0
note() { [ $1 -gt $rc ] && rc=$1; }

build_trap() {
  mk/build_h3.sh trap "$B/lib-trap" || return 2
  ( cd "$B/lib-trap" && ld -r -o h3all.tmp.o $(ls *.o) &&
    # every writable, non-thread-local section of the library goes under the trap: sections with contents -> h3data, NOBITS -> h3bss
    ren=$(objdump -h h3all.tmp.o | awk '$1 ~ /^[0-9]+$/ {name=$2; next} /ALLOC/ && !/READONLY/ && !/CODE/ && !/THREAD_LOCAL/ { if ($0 ~ /CONTENTS/) print "--rename-section " name "=h3data"; else print "--rename-section " name "=h3bss,alloc,load,data,contents" }' | tr '\n' ' ') &&
    objcopy $ren h3all.tmp.o h3all.o &&
    cat > head.c <<'EOC'
__attribute__((section("h3data"), aligned(4096))) char h3data_head[4096] = {1};
__attribute__((section("h3bss"), aligned(4096))) char h3bss_head[4096];
EOC
    cat > pad.c <<'EOC'
__attribute__((section("h3data"), aligned(4096))) char h3data_pad[4096] = {1};
__attribute__((section("h3bss"), aligned(4096))) char h3bss_pad[4096];
EOC
    gcc -O0 -fno-pic -c head.c -o head.o && gcc -O0 -fno-pic -c pad.c -o pad.o ) || return 2
  # any other writable section in the library object would escape the trap: refuse to run rather than miss it
  extra=$(objdump -h "$B/lib-trap/h3all.o" | awk '$1 ~ /^[0-9]+$/ {name=$2; next} /ALLOC/ && !/READONLY/ && !/CODE/ && !/THREAD_LOCAL/ {print name}' | grep -v -e '^h3data$' -e '^h3bss$' -e '^\.note' -e '^\.comment' -e '^\.debug' | sort -u | tr '\n' ' ')
  szd=$(objdump -h "$B/lib-trap/h3all.o" | awk '$2=="h3data"{s+=strtonum("0x"$3)} END{print s+0}'); szb=$(objdump -h "$B/lib-trap/h3all.o" | awk '$2=="h3bss"{s+=strtonum("0x"$3)} END{print s+0}')
  gcc -O2 -g -fno-pic -no-pie $HFL -I"$B/lib-trap" -DC18_TRAP -DLIBDATA=$szd -DLIBBSS=$szb $SRC "$B/lib-trap/head.o" "$B/lib-trap/h3all.o" "$B/lib-trap/pad.o" -lm -lpthread -o "$B/h-trap" || return 2
}
build_sched() {
  mk/build_h3.sh sched "$B/lib-sched" || return 2
  # the library's writable static storage is gathered into h3data/h3bss so that the scheduler can hash it at every choice point
  ( cd "$B/lib-sched" && rm -f libh3.a && ld -r -o h3all.tmp.o $(ls *.o) &&
    ren=$(objdump -h h3all.tmp.o | awk '$1 ~ /^[0-9]+$/ {name=$2; next} /ALLOC/ && !/READONLY/ && !/CODE/ && !/THREAD_LOCAL/ { if ($0 ~ /CONTENTS/) print "--rename-section " name "=h3data"; else print "--rename-section " name "=h3bss,alloc,load,data,contents" }' | tr '\n' ' ') &&
    objcopy $ren h3all.tmp.o h3all.o &&
    printf '__attribute__((section("h3data"))) char h3data_anchor[8] = {1};\n__attribute__((section("h3bss"))) char h3bss_anchor[8];\n' > anchor.c &&
    gcc -O0 -c anchor.c -o anchor.o ) || return 2
  szd=$(objdump -h "$B/lib-sched/h3all.o" | awk '$2=="h3data"{s+=strtonum("0x"$3)} END{print s+0}'); szb=$(objdump -h "$B/lib-sched/h3all.o" | awk '$2=="h3bss"{s+=strtonum("0x"$3)} END{print s+0}')
  gcc -O2 -g $HFL -I"$B/lib-sched" -DC18_SCHED -DLIBDATA=$szd -DLIBBSS=$szb $SRC "$B/lib-sched/anchor.o" "$B/lib-sched/h3all.o" -lm -lpthread -o "$B/h-sched" || return 2
}
build_tsan() {
  mk/build_h3.sh tsan "$B/lib-tsan" || return 2
  clang -O1 -g -fsanitize=thread $HFL -I"$B/lib-tsan" -DC18_TSAN $SRC "$B/lib-tsan/libh3.a" -lm -lpthread -o "$B/h-tsan" || return 2
}
# deny-list of libc functions that keep hidden static state / are documented as not thread-safe
DENY='^(rand|srand|random|srandom|drand48|erand48|lrand48|nrand48|mrand48|jrand48|srand48|seed48|lcong48|strtok|strerror|localtime|gmtime|asctime|ctime|setlocale|putenv|setenv|tmpnam|tempnam|getpwnam|getpwuid|getgrnam|gethostbyname|lgamma|lgammaf|gamma|ecvt|fcvt|gcvt|l64a|ttyname|readdir|getlogin|crypt|signgam|strsignal|wcstombs|mbtowc|wctomb|mblen|mbrlen|mbrtowc|wcrtomb|getc_unlocked|putc_unlocked|getchar_unlocked|putchar_unlocked|hcreate|hsearch|hdestroy|getopt|nl_langinfo|catgets|dbm_.*|ptsname|getdate|inet_ntoa)$'
run_symbols() {
  mk/build_h3.sh opt "$B/lib-sym" || return 2
  nm -u "$B"/lib-sym/*.o | awk '$1=="U"{print $2}' | sed 's/@.*//' | sort -u > "$B/undef.txt"
  # symbols the library defines itself are not external dependencies
  nm --defined-only "$B"/lib-sym/*.o | awk 'NF==3{print $3}' | sort -u > "$B/defd.txt"
  comm -23 "$B/undef.txt" "$B/defd.txt" > "$B/ext.txt"
  bad=$(grep -E "$DENY" "$B/ext.txt" | tr '\n' ' ')
  nsym=$(wc -l < "$B/ext.txt")
  wr=$(size -A "$B"/lib-sym/*.o | awk '$1==".data"||$1==".bss"||$1==".tbss"||$1==".tdata"{s+=$2} END{print s+0}')
  if [ -n "$bad" ]; then
    f=$V/replay/C18/$tier-symbols-0.json
    printf '{\n "property": "C18",\n "tier": "%s",\n "part": "symbols",\n "case": "symbols",\n "message": "the library references non-re-entrant libc functions: %s",\n "replay_cmd": "./check C18 --replay %s"\n}\n' "$tier" "$bad" "$f" > "$f"
    echo "VIOLATION property=C18 replay=$f"
    echo "  the library references libc functions with hidden static state: $bad"
    symviol=1; return 1
  fi
  symviol=0
  printf '{"ext_symbols": %d, "denied": 0, "writable_static_bytes": %d, "list": "%s"}\n' "$nsym" "$wr" "$(tr '\n' ' ' < "$B/ext.txt")" > "$B/part-symbols.json"
  return 0
}

export VERIF_PART_DIR="$B"
export TSAN_OPTIONS="halt_on_error=1 exitcode=66 report_signal_unsafe=0"
for part in $parts; do
  case $part in
    symbols) run_symbols; note $?; continue ;;
    trap)  build_trap;  b=$? ;;
    sched) build_sched; b=$? ;;
    tsan)  build_tsan;  b=$? ;;
    *) echo "unknown part $part" >&2; exit 2 ;;
  esac
  if [ $b != 0 ]; then echo "C18: build of part $part failed" >&2; note 2; continue; fi
  if [ "$part" = trap ] && [ -n "$extra" ]; then echo "C18: HARNESS ERROR unexpected writable sections in the library object: $extra" >&2; note 2; continue; fi
  if [ -n "$replay" ]; then
    VERIF_PART=$part "$B/h-$part" --tier $tier --replay "$replay"; exit $?
  fi
  if [ -n "$deadline" ]; then dl=$deadline
  elif [ $tier = thorough ]; then case $part in trap) dl=400;; sched) dl=1500;; tsan) dl=300;; esac
  else case $part in trap) dl=60;; sched) dl=110;; tsan) dl=40;; esac; fi
  VERIF_PART=$part "$B/h-$part" --tier $tier --deadline $dl
  note $?
done
[ -n "$replay" ] && exit $rc
python3 mk/merge_c18.py "$B" "$tier" "$t0" "$rc" || exit 2
exit $rc
