#!/usr/bin/env python3
# merge_c18.py <builddir> <tier> <t0> <rc>: merges build/C18/part-{trap,sched,tsan,symbols}.json into evidence/C18.json
import json, sys, time, os
B, tier, t0, rc = sys.argv[1], sys.argv[2], float(sys.argv[3]), int(sys.argv[4])
parts = {}
for p in ("trap", "sched", "tsan"):
    f = os.path.join(B, "part-%s.json" % p)
    if os.path.exists(f):
        parts[p] = json.load(open(f))
sym = None
f = os.path.join(B, "part-symbols.json")
if os.path.exists(f):
    sym = json.load(open(f))
cov = {"states": 0, "transitions": 0, "traces_validated_against_impl": 0, "evaluations": 0, "distinct_nontrivial": 0}
rules, bounds, phases, samples, counters, worst, assumptions = [], [], [], [], {}, {}, []
exhaustive = True
viol = 0
unrep = known = herr = 0
for p in ("trap", "sched", "tsan"):
    if p not in parts:
        exhaustive = False
        continue
    e = parts[p]; c = e["coverage"]
    for k in cov: cov[k] += c.get(k, 0)
    rules.append("[%s] %s" % (p, c["rule"])); bounds.append("[%s] %s" % (p, c.get("bounds", "")))
    for ph in c.get("phases", []): phases.append(ph)
    for s in c.get("samples", [])[:4]: samples.append("%s: %s" % (p, s))
    for k, v in c.get("counters", {}).items():
        if v: counters["%s.%s" % (p, k)] = v
    for k, v in c.get("worst_observed", {}).items(): worst["%s.%s" % (p, k)] = v
    if p != "tsan": exhaustive = exhaustive and c.get("exhaustive", False)   # the TSan pass is supporting, not deciding
    viol += e.get("violations", 0)
    unrep += c.get("unreproduced", 0); known += c.get("known_findings", 0); herr += c.get("harness_errors", 0)
    for a in e.get("assumptions", []):
        if a not in assumptions: assumptions.append(a)
if sym is None: exhaustive = exhaustive and False
if rc == 1 and viol == 0: viol = 1
cov.update({
    "rule": " || ".join(rules), "bounds": " || ".join(bounds), "exhaustive": bool(exhaustive and rc == 0),
    "explanation": "three binaries built from /repo's working tree: (trap) every workload runs with the library's static storage write-protected; "
                   "(sched) states = schedules executed to completion under the cooperative scheduler + history pairs, transitions = thread bodies executed, "
                   "every execution compared with the sequential reference on the real code; (tsan) free-running supporting pass; "
                   "(symbols) undefined symbols of the library checked against a deny-list of non-re-entrant libc functions",
    "phases": phases, "counters": counters, "worst_observed": worst, "unreproduced": unrep, "known_findings": known, "harness_errors": herr,
    "symbols": sym if sym else {"skipped_or_failed": True},
    "samples": samples or ["(no part completed)"],
})
ev = {"property_id": "C18", "tier": tier, "seed": int(os.environ.get("VERIF_SEED", "0") or 0), "level": "model_checking", "coverage": cov,
      "assumptions": assumptions, "wall_s": round(time.time() - t0, 2), "violations": viol}
if cov["states"] < 1: cov["states"] = 1
if cov["transitions"] < 1: cov["transitions"] = 1
tmp = "evidence/C18.json.tmp"
json.dump(ev, open(tmp, "w"), indent=1)
os.replace(tmp, "evidence/C18.json")
sys.stderr.write("[C18] merged evidence: states=%d transitions=%d exhaustive=%s violations=%d wall=%.1fs\n" % (cov["states"], cov["transitions"], cov["exhaustive"], viol, ev["wall_s"]))
