#!/bin/bash
# seed_detect.sh <seeded/ID> <CHECK> [tier]  -- applies the seeded patch to /repo's working tree, runs ./check <CHECK>, ALWAYS reverts.
# Prints: exit code, number of VIOLATION lines, first violation.
S=$(readlink -f "$1"); C=$2; tier=${3:-quick}
cd /verif || exit 2
[ -z "$(git -C /repo status --porcelain --untracked-files=no)" ] || { echo "/repo has uncommitted changes; refusing" >&2; exit 2; }
# the evidence file of the check is saved and put back: a run against a seeded tree must never end up as committed evidence
ev=evidence/$C.json; [ -f "$ev" ] && cp "$ev" "/tmp/seed_detect_ev_$$.json"
trap 'git -C /repo checkout -- . ; [ -f "/tmp/seed_detect_ev_$$.json" ] && mv "/tmp/seed_detect_ev_$$.json" "/verif/$ev"' EXIT
git -C /repo apply "$S/patch.diff" || exit 2
mkdir -p build/seed
log=build/seed/$(basename "$S")-$C-$tier.log
t0=$(date +%s)
./check "$C" --tier "$tier" >"$log" 2>&1; rc=$?
t1=$(date +%s)
nv=$(grep -c '^VIOLATION' "$log")
echo "seed=$(basename "$S") check=$C tier=$tier exit=$rc violations=$nv wall=$((t1-t0))s"
grep -A2 '^VIOLATION' "$log" | head -4
