#!/usr/bin/env python3
"""seed_import.py <Cxx> <n> "<summary>" "<needs>" [--checks C05,C09] [--tier quick] [--no-confirm]
Copies /tmp/wt/<Cxx>/out/<n>/ into /verif/seeded/<Cxx>-<n>/, confirms it in a scratch worktree (mk/seed_confirm.sh),
runs the registered quick check(s) against it in /repo (mk/seed_detect.sh, always reverted) and writes meta.json."""
import json, os, shutil, subprocess, sys, argparse
ap = argparse.ArgumentParser()
ap.add_argument("prop"); ap.add_argument("n"); ap.add_argument("summary"); ap.add_argument("needs")
ap.add_argument("--checks", default=None); ap.add_argument("--tier", default="quick"); ap.add_argument("--no-confirm", action="store_true")
ap.add_argument("--src", default=None); ap.add_argument("--no-detect", action="store_true")
a = ap.parse_args()
src = a.src or f"/tmp/wt/{a.prop}/out/{a.n}"
dst = f"/verif/seeded/{a.prop}-{a.n}"
os.makedirs(dst, exist_ok=True)
for f in ([] if os.path.realpath(src) == os.path.realpath(dst) else os.listdir(src)):
    if os.path.isfile(os.path.join(src, f)) and os.path.getsize(os.path.join(src, f)) < 200000 and not f.endswith((".o", ".a")) and f not in ("demo", "demo_bin"):
        shutil.copy(os.path.join(src, f), dst)
meta_p = os.path.join(dst, "meta.json")
def load():
    return json.load(open(meta_p)) if os.path.exists(meta_p) else {}
meta = load()
meta.update({"id": f"{a.prop}-{a.n}", "property": a.prop, "summary": a.summary, "needs_to_manifest": a.needs,
             "origin": f"fresh sub-agent given only the text of {a.prop} and its own scratch worktree (nothing from /verif)"})
if not a.no_confirm:
    r = subprocess.run(["/verif/mk/seed_confirm.sh", dst], capture_output=True, text=True)
    try: meta["confirmation"] = json.loads(r.stdout.strip().splitlines()[-1])
    except Exception: meta["confirmation"] = {"error": r.stdout[-300:] + r.stderr[-300:]}
    meta["confirmation"]["cmd"] = f"mk/seed_confirm.sh seeded/{a.prop}-{a.n}  (scratch worktree: clean build + demo; git apply; rebuild; ctest -j8 --timeout 900; demo)"
    print("confirm:", json.dumps(meta["confirmation"])[:400])
det = []
for c in ([] if a.no_detect else a.checks.split(",") if a.checks else [a.prop]):
    r = subprocess.run(["/verif/mk/seed_detect.sh", dst, c, a.tier], capture_output=True, text=True)
    out = r.stdout.strip().splitlines()
    print("\n".join(out[:4])); 
    d = {"check": c, "tier": a.tier, "cmd": f"git -C /repo apply seeded/{a.prop}-{a.n}/patch.diff; ./check {c} --tier {a.tier}; git -C /repo checkout -- ."}
    if out:
        kv = dict(x.split("=", 1) for x in out[0].split() if "=" in x)
        d.update({"exit": int(kv.get("exit", -1)), "violations": int(kv.get("violations", 0)), "wall": kv.get("wall", ""), "first_violation": " | ".join(l.strip() for l in out[1:4])[:600]})
        d["detected"] = d["exit"] == 1 and d["violations"] > 0
    det.append(d)
cur = load()   # a concurrently running confirm/detect may have written in the meantime: merge
cur.update({k: v for k, v in meta.items() if k not in ("detection", "confirmation")})
if "confirmation" in meta and not a.no_confirm: cur["confirmation"] = meta["confirmation"]
if not a.no_detect:
    old = [x for x in cur.get("detection", []) if not any(x["check"] == y["check"] and x["tier"] == y["tier"] for y in det)]
    cur["detection"] = old + det
json.dump(cur, open(meta_p, "w"), indent=1)
