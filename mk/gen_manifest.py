#!/usr/bin/env python3
"""Regenerates /verif/MANIFEST.json from the table below. A property is claimed iff its harness exists
(src/cXX_*.c); otherwise it is listed under not_applicable with the reason 'harness not built yet'."""
import glob, json, os
V = os.path.dirname(os.path.dirname(os.path.abspath(__file__)))
P = {
 "C01": ("model_checking", "bounded exhaustive input enumeration vs digit-loop reference model",
         "Exhaustive enumeration of five structured sub-spaces of the 64-bit index space (all 2^19 headers, all 8^6 digit windows at every offset/resolution, <=3-digit deviations, complete 4^15 reduced-alphabet products, complete small-resolution counts) on the real isValidCell, each value compared with a digit-loop transcription of the documented layout; plus a closure driver that runs every cell-producing API entry point (with in-range, boundary and out-of-range scalar arguments) from every cell of FULL(0..2/3) and the pentagon/seam/polar families at all 16 resolutions and checks each output cell, and checks that every value of the hostile index alphabet that the library itself accepts as a directed edge or vertex decodes to valid cells.",
         "2^64 is not enumerated; the spec transcription in src/spec.h is trusted.", "4-C01"),
 "C02": ("model_checking", "bounded exhaustive probe-lattice enumeration vs gnomonic-chart containment oracle",
         "Every probe of a fixed lattice (every edge/corner of every cell of complete coarse resolutions and of the pentagon/seam/face-centre families at all 16 resolutions, offsets 1e-1..1e-13 inside/on/outside) is sent through latLngToCell and the returned cell's boundary must contain it within the property's own tolerance; special points and argument classes are enumerated completely.",
         "Oracle geometry (local gnomonic chart, winding number) and libm are trusted; points outside the lattice are not explored.", "4-C02"),
 "C03": ("model_checking", "complete enumeration of coarse resolutions and families vs closed-form counts",
         "Round trip cell->centre->cell for every cell of complete resolutions (0..5 quick, 0..7 thorough) and all families at all resolutions; counts, pentagon sets and res-0 sets compared with the spec enumerator; census of all 128*8^r index values (r<=5/6) and of all one-/two-digit deviations at every resolution: isValidCell accepts exactly 2+120*7^r values and each accepted value round-trips.",
         "Interior cells of resolutions >= 8 outside the families are not enumerated.", "4-C03"),
 "C04": ("model_checking", "bounded exhaustive enumeration vs spec odometer",
         "cellToChildren/Size/CenterChild/Parent compared element for element with an independent digit odometer for every parent of complete coarse resolutions and the families, at every child resolution that can be enumerated; partition checked by concatenation.",
         "spec.h odometer trusted; depth differences whose child lists cannot be enumerated are checked for size, first, last only.", "4-C04"),
 "C05": ("model_checking", "bounded exhaustive enumeration vs BFS on geometry-derived graph",
         "Every origin of complete coarse resolutions x every k up to the stated bound, and every origin of the fine families with small k, through all seven gridDisk-family functions and areNeighborCells, compared with BFS on a neighbour graph derived from cell boundaries and latLngToCell only (no traversal table).",
         "G_geo is built from the point<->cell<->boundary pipeline, itself judged by C02/C03/C08.", "4-C05"),
 "C06": ("model_checking", "exhaustive subsets x permutations vs reference set compaction",
         "All subsets x all permutations of sibling groups, all 5^7 two-level states x orders, sub-trees minus one cell, disks, error inputs, through compactCells/uncompactCells/uncompactCellsSize, compared with a sort-and-merge reference compaction; uncompact sizes of compact two-cell sets at every depth 0..15-res against closed-form counts.",
         "Sets outside the catalogue (sizes, shapes) are not explored.", "4-C06"),
 "C07": ("model_checking", "exhaustive polygon catalogue x candidate cells vs point-in-polygon",
         "Every polygon of a catalogue (shapes x anchors x scales x resolutions) through both polyfill algorithms; every candidate cell near the polygon judged by an independent crossing-number test with an undecided band.",
         "Polygons outside the catalogue are not explored; centres within 1e-9 rad of an edge are undecided.", "4-C07"),
 "C08": ("model_checking", "complete enumeration vs shared-stretch coincidence and spherical area",
         "Every cell of complete coarse resolutions and of the families: vertex counts, orientation, shared stretches with each geometric neighbour coincide reversed, areas equal the fan area, sum to 4 pi; the same oracle over a scrambled list mixing all resolutions and cell classes, and bare call sequences across resolutions compared with a resolution-by-resolution pass (results must not depend on call history).",
         "GEO formulas and libm trusted.", "4-C08"),
 "C09": ("model_checking", "all ordered pairs of complete resolutions vs BFS distance",
         "gridDistance and local IJ round trips for all ordered pairs of complete coarse resolutions and radius-bounded balls in the families, compared with BFS distance on G_geo; ij->cell->ij squares from every origin of the complete resolutions; extreme IJ incl. the int32 wrap points k*2^31/7; mixed-resolution pairs over all base cells.",
         "Distances beyond the stated radii at fine resolutions are not explored.", "4-C09"),
 "C10": ("model_checking", "complete enumeration vs G_geo adjacency and shared stretch",
         "Every (cell, neighbour) and near non-neighbour pair (same resolution at distance 0,2,3; parent, children and centre grandchild of every cell within distance 3, both argument orders) of complete coarse resolutions and the families; every candidate edge index over modes x reserved bits.",
         "G_geo trusted as for C05.", "4-C10"),
 "C11": ("model_checking", "complete enumeration vs three-cells-one-index and 2N-4",
         "Every (cell, vertex) of complete coarse resolutions and the families; canonical-form check of every candidate vertex index; global count identity.",
         "G_geo trusted as for C05.", "4-C11"),
 "C12": ("model_checking", "exhaustive argument-alphabet products under ASan/UBSan with live internal assertions",
         "Every exported function over the product of finite hostile argument alphabets (index alphabet, INTS, DBLS), malformed aggregates (degenerate polygons, tiny shells with many-vertex ring holes, polar/global cell sets, polygon fills into ASan-exact buffers smaller than the result) and depth-bounded call sequences, on an ASan+UBSan build without NDEBUG.",
         "Argument values outside the alphabets are not explored; sanitizers are the oracle for memory safety.", "4-C12"),
 "C13": ("model_checking", "bounded exhaustive enumeration vs lexicographic rank by counting",
         "Every (parent, child resolution, position) for complete coarse parents and structured positions to depth 15, compared with an independent rank/unrank by counting.",
         "spec.h rank trusted (cross-checked against the odometer at start-up).", "4-C13"),
 "C14": ("model_checking", "all ordered pairs of complete resolutions vs G_geo adjacency",
         "Every path gridPathCells returns for all ordered pairs of complete coarse resolutions, balls in the families, long fine-resolution paths and long skew straight lines (to 2 800 cells) from origins with local coordinates up to 1.4e6 at res 13-15: end points, G_geo adjacency of consecutive cells, announced length.",
         "G_geo trusted as for C05.", "4-C14"),
 "C15": ("model_checking", "exhaustive polygon catalogue x modes x capacities vs three-valued planar relation",
         "Every polygon of the catalogue (all 16 resolutions in both tiers) plus cell-derived corner-tip polygons x four containment modes x capacities x flag values; every candidate cell judged by a three-valued lat/lng-plane relation; exact nesting and bound checks.",
         "Polygons outside the catalogue not explored; undecided band reported.", "4-C15"),
 "C16": ("model_checking", "exhaustive cell-set catalogue vs components/area/vertex-membership oracle",
         "Every set of a catalogue (disks, holes, islands, components) at all 16 resolutions through cellsToLinkedMultiPolygon; component count on G_geo, loop orientation, vertex membership, per-component loop ownership and area balance, allocator ledger; polar sets and sets with a planted non-cell under a ledger-only oracle (error clause).",
         "Sets outside the catalogue not explored.", "4-C16"),
 "C17": ("fault_enumeration", "exhaustive allocation-failure enumeration (every index, pairs) with ledger allocator",
         "For every input of the alphabet (disks from valid and invalid origins, neighbour pairs, single- and multi-base-cell compactions, catalogue and degenerate polygons in all modes, resolutions outside 0..15, sufficient and insufficient capacities), every allocation index is failed in turn (single, persistent, pairs) on the real code through the library's own H3_ALLOC_PREFIX seam; the ledger allocator decides leaks/double frees and the result code.",
         "Inputs outside the alphabet not explored.", "4-C17"),
 "C18": ("model_checking", "stateless preemption-bounded schedule enumeration on real threads (cooperative scheduler, function-entry granularity) + write-trap on library static storage + history pairs; supporting free-running ThreadSanitizer pass",
         "Three binaries from /repo's working tree. (1) write-trap: the library's .data/.bss are renamed, page-bracketed and mprotect(PROT_READ)-ed while a broad product of workloads covering every exported function runs: any write to library-owned static storage is a violation. (2) scheduler: library compiled with -finstrument-functions; every library function entry and allocator call is a scheduling point; stateless DFS over ALL schedules with <=1 preemption of every pair of a 58-call alphabet at fine granularity (covers every state and transition of the product of the two point sequences), <=2 at API/allocator granularity and for small pairs at fine granularity, core triples on three threads, and allocation-fault x schedule; every execution runs to completion on the real code and each thread's serialised outputs must be byte-identical to the sequential reference; library static storage is hashed at every choice point; the ledger must be empty. (3) history: all ordered call pairs, q after p == q in a fresh process, with heap/stack poisoning. (4) supporting: free-running threads under ThreadSanitizer; undefined symbols vs a deny-list of non-re-entrant libc functions.",
         "Preemption is explored at function-entry granularity (strided for long calls), not at instruction granularity; the write-trap (no library-owned byte is ever written) is what makes this reduction sound. More than 3 threads only in the TSan pass.", "4-C18"),
 "C19": ("model_checking", "complete enumeration vs nearest-face classification",
         "Every cell of complete coarse resolutions, the families and two rings around all icosahedron edges: reported faces between must and may sets derived from nearest face centre of sample points.",
         "Face-centre table cross-checked against geometry at start-up.", "4-C19"),
 "C20": ("model_checking", "bounded exhaustive value/buffer/string enumeration vs formatting reference",
         "All values with <=3 bits set, all 16-bit patterns at 4 offsets, boundary values, real indexes x buffer sizes 0..32 with guard bytes; all byte strings of length <=5 (thorough <=7) over a 16-byte alphabet for parsing; arbitrary caller errno and failing parses before every parse.",
         "Values outside the structured sets not enumerated.", "4-C20"),
}
checks, na = [], []
for pid in sorted(P):
    lvl, tech, text, note, ref = P[pid]
    if glob.glob(os.path.join(V, "src", pid.lower() + "_*.c")):
        checks.append({
            "property_id": pid,
            "quick_cmd": f"./check {pid} --tier quick",
            "thorough_cmd": f"./check {pid} --tier thorough",
            "evidence_file": f"/verif/evidence/{pid}.json",
            "replay_cmd_template": f"./check {pid} --replay {{path}}",
            "engine": "mc-explorer",
            "level_claimed": {"category": lvl, "text": text, "design_ref": "DESIGN.md " + ref},
            "level_note": note,
            "technique": tech,
        })
    else:
        na.append({"property_id": pid, "reason": "harness not built yet (planned, see DESIGN.md " + ref + "); not claimed until its check exists and passes on the unchanged tree"})
m = {
 "version": 1,
 "setup_cmd": "mkdir -p build evidence replay && chmod +x check mk/*.sh",
 "hooks": {"guard": "UBER_H3_VERIF", "enable": "mk/build_h3.sh compiles /repo/src/h3lib/lib/*.c with -DUBER_H3_VERIF=1 (no hook code is needed: assertions are enabled by omitting NDEBUG, the allocator seam is the library's own H3_ALLOC_PREFIX)",
           "baseline_off_cmd": "cmake --build /repo/_build && ctest --test-dir /repo/_build -j8 --timeout 900",
           "source_commits": [], "add_only": True},
 "engines": [{"name": "mc-explorer", "path": "/verif/src/mc.h", "serves_properties": [c["property_id"] for c in checks],
              "kind_free_text": "hand-written bounded exhaustive explorer: forked sharded enumeration of finite input/fault/schedule spaces on the real library, reference models in src/spec.h, src/geo.h"}],
 "checks": checks,
 "not_applicable": na,
 "notes": "All checks rebuild libh3 from /repo's working tree on every invocation (mk/build_h3.sh). Known findings: /verif/known_findings.txt.",
}
json.dump(m, open(os.path.join(V, "MANIFEST.json"), "w"), indent=1)
print("claimed", len(checks), "not_applicable", len(na))
