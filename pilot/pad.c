// page-sized tail pads so nothing else shares the last page
__attribute__((section("h3data"), aligned(4096))) char h3data_pad[4096] = {1};
__attribute__((section("h3bss"), aligned(4096))) char h3bss_pad[4096];
