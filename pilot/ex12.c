#include "common.h"
typedef struct { double x, y; } P2;
static double adist(LatLng c0, LatLng p) {
    double dlat = p.lat - c0.lat, dlng = p.lng - c0.lng;
    if (dlng > M_PI) dlng -= 2 * M_PI; if (dlng < -M_PI) dlng += 2 * M_PI;
    double s2 = sin(dlng / 2); s2 *= s2;
    double cosc = cos(dlat) - 2 * cos(c0.lat) * cos(p.lat) * s2;
    double x = cos(p.lat) * sin(dlng) / cosc, y = (sin(dlat) + 2 * sin(c0.lat) * cos(p.lat) * s2) / cosc; return atan(hypot(x, y));
}
static double worst; static long n;
static void cb(uint64_t h, void *u) {
    LatLng c; cellToLatLng(h, &c);
    for (int r = resOf(h); r <= 15; r++) { uint64_t ch; cellToCenterChild(h, r, &ch); LatLng g; cellToLatLng(ch, &g); double d = adist(c, g); double tol = fmax(2e-12, 4e-15 / cos(c.lat)); if (d / tol > worst) { worst = d / tol; } n++; }
}
int main() { for (int r = 0; r <= 4; r++) { enum_res(r, cb, 0); printf("res %d n %ld worst d/tol %.3g\n", r, n, worst); } }
