#include "graph.h"
#include <time.h>
int main(int argc, char **argv) {
    int res = atoi(argv[1]); int K = atoi(argv[2]); int pairs = atoi(argv[3]);
    clock_t t0 = clock();
    Graph *g = buildGraph(res);
    printf("graph res %d n=%d built %.1fs\n", res, g->n, (double)(clock() - t0) / CLOCKS_PER_SEC);
    int *dist = malloc(g->n * sizeof(int)), *queue = malloc(g->n * sizeof(int));
    long diskBad = 0, unsafeErr = 0, unsafeOk = 0, unsafeBad = 0, ringBad = 0, ringOk = 0, ringErr = 0;
    for (int k = 0; k <= K; k++) {
        int64_t sz; maxGridDiskSize(k, &sz);
        uint64_t *out = malloc(sz * 8); int *dd = malloc(sz * sizeof(int));
        uint64_t *ring = malloc((k ? 6 * k : 1) * 8);
        for (int id = 0; id < g->n; id++) {
            int reached = bfs(g, id, dist, queue, k);
            memset(out, 0, sz * 8); memset(dd, 0, sz * 4);
            H3Error e = gridDiskDistances(g->cells[id], k, out, dd);
            int cnt = 0, bad = e != 0;
            for (int64_t i = 0; i < sz && !bad; i++) if (out[i]) { int j = gid(g, out[i]); if (j < 0 || dist[j] != dd[i]) bad = 1; cnt++; }
            if (cnt != reached) bad = 1;
            // duplicates: cnt==reached and all valid distinct? check distinctness via marking
            if (!bad) { for (int64_t i = 0; i < sz; i++) if (out[i]) { int j = gid(g, out[i]); if (dist[j] == -2) bad = 1; dist[j] = -2; } bfs(g, id, dist, queue, k); }
            if (bad) { diskBad++; if (diskBad < 5) printf("disk bad %llx k=%d e=%d cnt=%d reached=%d\n", (unsigned long long)g->cells[id], k, e, cnt, reached); }
            // safe
            memset(out, 0, sz * 8); memset(dd, 0, sz * 4);
            e = gridDiskDistancesSafe(g->cells[id], k, out, dd);
            cnt = 0; bad = e != 0;
            for (int64_t i = 0; i < sz && !bad; i++) if (out[i]) { int j = gid(g, out[i]); if (j < 0 || dist[j] != dd[i]) bad = 1; cnt++; }
            if (cnt != reached) bad = 1;
            if (bad) { diskBad++; if (diskBad < 5) printf("safe bad %llx k=%d\n", (unsigned long long)g->cells[id], k); }
            // unsafe
            memset(out, 0, sz * 8); memset(dd, 0, sz * 4);
            e = gridDiskDistancesUnsafe(g->cells[id], k, out, dd);
            if (e) unsafeErr++;
            else {
                unsafeOk++; bad = 0; cnt = 0;
                for (int64_t i = 0; i < sz; i++) { int j = gid(g, out[i]); if (j < 0 || dist[j] != dd[i]) { bad = 1; break; } if (i && dd[i] < dd[i - 1]) bad = 1; cnt++; }
                if (reached != sz) bad = 1;
                if (bad) { unsafeBad++; if (unsafeBad < 5) printf("unsafe bad %llx k=%d reached=%d sz=%lld\n", (unsigned long long)g->cells[id], k, reached, (long long)sz); }
            }
            // ring
            e = gridRingUnsafe(g->cells[id], k, ring);
            if (e) ringErr++;
            else {
                ringOk++; bad = 0; int want = 0; for (int i = 0; i < g->n; i++) if (dist[i] == k) want++;
                int rn = k ? 6 * k : 1;
                if (want != rn) bad = 1;
                for (int i = 0; i < rn && !bad; i++) { int j = gid(g, ring[i]); if (j < 0 || dist[j] != k) bad = 1; for (int m = 0; m < i; m++) if (ring[m] == ring[i]) bad = 1; }
                if (bad) { ringBad++; if (ringBad < 5) printf("ring bad %llx k=%d want=%d\n", (unsigned long long)g->cells[id], k, want); }
            }
        }
        free(out); free(dd); free(ring);
        printf("k=%d done diskBad=%ld unsafe ok/err/bad=%ld/%ld/%ld ring ok/err/bad=%ld/%ld/%ld  %.1fs\n", k, diskBad, unsafeOk, unsafeErr, unsafeBad, ringOk, ringErr, ringBad, (double)(clock() - t0) / CLOCKS_PER_SEC);
    }
    if (pairs) {
        long ok = 0, fail = 0, wrong = 0, asym = 0, pathOk = 0, pathErr = 0, pathBad = 0, nb1bad = 0, ijrt = 0, ijbad = 0, ijunit = 0;
        long maxOkDist = 0;
        for (int a = 0; a < g->n; a++) {
            bfs(g, a, dist, queue, -1);
            for (int b = 0; b < g->n; b++) {
                int64_t d; H3Error e = gridDistance(g->cells[a], g->cells[b], &d);
                if (e) { fail++; if (dist[b] <= 1) { nb1bad++; if (nb1bad < 5) printf("dist fails for neighbor/self %llx %llx\n", (unsigned long long)g->cells[a], (unsigned long long)g->cells[b]); } continue; }
                ok++; if (d > maxOkDist) maxOkDist = d;
                if (d != dist[b]) { wrong++; if (wrong < 10) printf("gridDistance wrong %llx %llx lib=%lld bfs=%d\n", (unsigned long long)g->cells[a], (unsigned long long)g->cells[b], (long long)d, dist[b]); }
                int64_t d2; if (!gridDistance(g->cells[b], g->cells[a], &d2) && d2 != d) { asym++; if (asym < 5) printf("asym %llx %llx %lld %lld\n", (unsigned long long)g->cells[a], (unsigned long long)g->cells[b], (long long)d, (long long)d2); }
                // local ij roundtrip
                CoordIJ ij; if (!cellToLocalIj(g->cells[a], g->cells[b], 0, &ij)) { uint64_t back; H3Error e2 = localIjToCell(g->cells[a], &ij, 0, &back); if (!e2) { ijrt++; if (back != g->cells[b]) { ijbad++; if (ijbad < 5) printf("ij roundtrip bad %llx %llx -> %llx\n", (unsigned long long)g->cells[a], (unsigned long long)g->cells[b], (unsigned long long)back); } } }
                // path
                int64_t psz; if (!gridPathCellsSize(g->cells[a], g->cells[b], &psz)) {
                    uint64_t *path = calloc(psz + 1, 8); path[psz] = 0xdeadbeef;
                    H3Error pe = gridPathCells(g->cells[a], g->cells[b], path);
                    if (pe) pathErr++; else {
                        int bad = psz != d + 1 || path[0] != g->cells[a] || path[psz - 1] != g->cells[b];
                        for (int i = 1; i < psz && !bad; i++) { int u = gid(g, path[i - 1]), v = gid(g, path[i]); if (u < 0 || v < 0) { bad = 1; break; } int f = 0; for (int m = 0; m < g->deg[u]; m++) if (g->nbr[u][m] == v) f = 1; if (!f) bad = 1; }
                        if (bad) { pathBad++; if (pathBad < 5) printf("path bad %llx %llx\n", (unsigned long long)g->cells[a], (unsigned long long)g->cells[b]); } else pathOk++;
                        if (dist[b] <= 1 && pe) printf("path fails for neighbor\n");
                    }
                    if (path[psz] != 0xdeadbeef) printf("path overrun\n");
                    free(path);
                }
            }
        }
        printf("pairs: ok=%ld fail=%ld wrong=%ld asym=%ld maxOkDist=%ld nb1bad=%ld ij rt=%ld bad=%ld path ok/err/bad=%ld/%ld/%ld  %.1fs\n", ok, fail, wrong, asym, maxOkDist, nb1bad, ijrt, ijbad, pathOk, pathErr, pathBad, (double)(clock() - t0) / CLOCKS_PER_SEC);
    }
}
