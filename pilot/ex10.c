#include "common.h"
#include <signal.h>
#include <sys/wait.h>
#include <unistd.h>
#include <limits.h>
// Pilot for C12: sanitizer sweep over a structured index alphabet for unary/binary index functions.
static uint64_t A[200000]; static int nA;
static void addA(uint64_t h) { A[nA++] = h; }
static void buildAlphabet(int small) {
    int d[15];
    uint64_t bases[64]; int nb = 0;
    for (int res = 0; res <= 15; res += (small ? 5 : 1)) for (int bcI = 0; bcI < 4; bcI++) {
        int bc = (int[]){4, 14, 20, 121}[bcI];
        for (int pat = 0; pat < 3; pat++) { for (int j = 0; j < 15; j++) d[j] = pat == 0 ? 0 : pat == 1 ? ((j * 3 + 2) % 7) : (j < 3 ? 0 : 2 + j % 5); uint64_t h = mk(res, bc, d); if (spec_valid(h) && nb < 64) bases[nb++] = h; }
    }
    for (int i = 0; i < nb; i++) {
        addA(bases[i]);
        for (int b = 0; b < 64; b++) addA(bases[i] ^ (1ULL << b));
        if (!small) for (int b = 0; b < 64; b += 1) for (int c = b + 1; c < 64; c += 7) addA(bases[i] ^ (1ULL << b) ^ (1ULL << c));
        for (int m = 0; m < 16; m++) addA((bases[i] & ~(15ULL << 59)) | ((uint64_t)m << 59));
        for (int r = 0; r < 8; r++) addA(bases[i] | ((uint64_t)r << 56));
        for (int r = 0; r < 8; r++) addA(((bases[i] & ~(15ULL << 59)) | (2ULL << 59)) | ((uint64_t)r << 56));
        for (int r = 0; r < 8; r++) addA(((bases[i] & ~(15ULL << 59)) | (4ULL << 59)) | ((uint64_t)r << 56));
        for (int p = 1; p <= 15; p++) { addA((bases[i] & ~(7ULL << (3 * (15 - p)))) | (7ULL << (3 * (15 - p)))); addA((bases[i] & ~(7ULL << (3 * (15 - p)))) | (1ULL << (3 * (15 - p)))); }
        for (int bc = 120; bc < 128; bc++) addA((bases[i] & ~(127ULL << 45)) | ((uint64_t)bc << 45));
    }
    addA(0); addA(~0ULL); addA(1); addA(0x7fffffffffffffffULL); addA(0x8000000000000000ULL);
}
static const int INTS[] = {INT_MIN, -2, -1, 0, 1, 2, 5, 14, 15, 16, 17, 100, INT_MAX};
#define NI ((int)(sizeof INTS / sizeof *INTS))
static long ncalls;
static int badcode(H3Error e) { return e > 15; }
static void unary(uint64_t h) {
    LatLng g; CellBoundary cb; double dd; int64_t i64; int fc; uint64_t o;
    H3Error e;
    e = cellToLatLng(h, &g); if (badcode(e)) abort();
    e = cellToBoundary(h, &cb); if (badcode(e)) abort();
    cellAreaRads2(h, &dd); cellAreaKm2(h, &dd); cellAreaM2(h, &dd);
    edgeLengthRads(h, &dd); edgeLengthKm(h, &dd); edgeLengthM(h, &dd);
    isValidCell(h); isValidDirectedEdge(h); isValidVertex(h); isPentagon(h); isResClassIII(h); getResolution(h); getBaseCellNumber(h);
    maxFaceCount(h, &fc); { int *f = malloc(fc * sizeof(int)); getIcosahedronFaces(h, f); free(f); }
    getDirectedEdgeOrigin(h, &o); getDirectedEdgeDestination(h, &o); { uint64_t *od = malloc(16); directedEdgeToCells(h, od); free(od); }
    { uint64_t *ed = malloc(48); originToDirectedEdges(h, ed); free(ed); }
    directedEdgeToBoundary(h, &cb);
    { uint64_t *v = malloc(48); cellToVertexes(h, v); free(v); }
    vertexToLatLng(h, &g);
    char *s = malloc(17); h3ToString(h, s, 17); free(s);
    ncalls += 30;
    for (int ii = 0; ii < NI; ii++) {
        int r = INTS[ii];
        cellToParent(h, r, &o); cellToCenterChild(h, r, &o); cellToChildPos(h, r, &i64); cellToVertex(h, r, &o);
        if (!cellToChildrenSize(h, r, &i64) && i64 <= 2401) { uint64_t *ch = malloc(i64 * 8); cellToChildren(h, r, ch); free(ch); }
        for (int jj = 0; jj < NI; jj++) { childPosToCell(INTS[jj], h, r, &o); childPosToCell((int64_t)INTS[jj] * 1048576, h, r, &o); }
        if (r >= 0 && r <= 3) {
            int64_t sz; maxGridDiskSize(r, &sz);
            uint64_t *out = calloc(sz, 8); int *ds = calloc(sz, 4);
            gridDisk(h, r, out); memset(out, 0, sz * 8); gridDiskDistances(h, r, out, ds); memset(out, 0, sz * 8); memset(ds, 0, sz * 4);
            gridDiskDistancesSafe(h, r, out, ds); gridDiskUnsafe(h, r, out); gridDiskDistancesUnsafe(h, r, out, ds);
            free(out); free(ds);
            uint64_t *ring = malloc((r ? 6 * r : 1) * 8); gridRingUnsafe(h, r, ring); free(ring);
        } else { uint64_t *out = malloc(8); int *ds = malloc(4); if (r < 0) { gridDisk(h, r, out); gridDiskDistances(h, r, out, ds); gridDiskDistancesSafe(h, r, out, ds); gridDiskUnsafe(h, r, out);} free(out); free(ds); }
        ncalls += 12;
    }
    // localIj with extreme coords
    static const int IJ[] = {INT_MIN, INT_MIN + 1, -1000000, -1, 0, 1, 7, 1000000, INT_MAX / 3, INT_MAX - 1, INT_MAX};
    for (unsigned a = 0; a < sizeof IJ / sizeof *IJ; a++) for (unsigned b = 0; b < sizeof IJ / sizeof *IJ; b++) { CoordIJ ij = {IJ[a], IJ[b]}; localIjToCell(h, &ij, 0, &o); localIjToCell(h, &ij, 1, &o); ncalls += 2; }
}
static void binary(uint64_t a, uint64_t b) {
    int64_t d; int nb; uint64_t e; CoordIJ ij;
    gridDistance(a, b, &d); areNeighborCells(a, b, &nb); cellsToDirectedEdge(a, b, &e); cellToLocalIj(a, b, 0, &ij); cellToLocalIj(a, b, 7, &ij);
    int64_t sz; if (!gridPathCellsSize(a, b, &sz) && sz < 100000) { uint64_t *p = malloc(sz * 8); gridPathCells(a, b, p); free(p); }
    ncalls += 7;
}
int main(int argc, char **argv) {
    int mode = atoi(argv[1]); int shard = atoi(argv[2]), nshard = atoi(argv[3]);
    buildAlphabet(mode == 2);
    fprintf(stderr, "alphabet %d\n", nA);
    if (mode == 1) for (int i = shard; i < nA; i += nshard) unary(A[i]);
    if (mode == 2) for (int i = shard; i < nA; i += nshard) for (int j = 0; j < nA; j++) binary(A[i], A[j]);
    printf("mode %d shard %d calls %ld ok\n", mode, shard, ncalls);
}
