#include "graph.h"
static int cmp64(const void *a, const void *b) { uint64_t x = *(uint64_t *)a, y = *(uint64_t *)b; return x < y ? -1 : x > y; }
#include <time.h>
// Pilot for C08/C10/C11: shared boundary stretches, areas, directed edges, vertexes over a full resolution
typedef struct { double x, y; } P2;
static P2 gno(LatLng c0, LatLng p) {
    double dlat = p.lat - c0.lat, dlng = p.lng - c0.lng;
    if (dlng > M_PI) dlng -= 2 * M_PI; if (dlng < -M_PI) dlng += 2 * M_PI;
    double s2 = sin(dlng / 2); s2 *= s2;
    double cosc = cos(dlat) - 2 * cos(c0.lat) * cos(p.lat) * s2;
    P2 r; r.x = cos(p.lat) * sin(dlng) / cosc; r.y = (sin(dlat) + 2 * sin(c0.lat) * cos(p.lat) * s2) / cosc; return r;
}
// accurate small angular distance between two latlngs (haversine-free: via local chart)
static double adist(LatLng a, LatLng b) { P2 q = gno(a, b); return atan(hypot(q.x, q.y)); }
static double fanArea(LatLng c, CellBoundary *cb) {
    double A = 0; P2 v[10];
    for (int i = 0; i < cb->numVerts; i++) v[i] = gno(c, cb->verts[i]);
    for (int i = 0; i < cb->numVerts; i++) {
        P2 a = v[i], b = v[(i + 1) % cb->numVerts];
        double ra = hypot(a.x, a.y), rb = hypot(b.x, b.y);
        double ta = ra / (1 + sqrt(1 + ra * ra)), tb = rb / (1 + sqrt(1 + rb * rb));
        double sinC = (a.x * b.y - a.y * b.x) / (ra * rb), cosC = (a.x * b.x + a.y * b.y) / (ra * rb);
        A += 2 * atan2(ta * tb * sinC, 1 + ta * tb * cosC);
    }
    return A;
}
int main(int argc, char **argv) {
    int res = atoi(argv[1]);
    clock_t t0 = clock();
    Graph *g = buildGraph(res);
    double sumLib = 0, sumRef = 0, maxRel = 0, maxShare = 0, maxEdgeB = 0, maxVtx = 0, maxLenRel = 0;
    long badShare = 0, nv[12] = {0}, edgeBad = 0, vtxBad = 0, nverts = 0, ccwBad = 0;
    uint64_t *allv = malloc((size_t)g->n * 6 * 8); long nallv = 0;
    for (int id = 0; id < g->n; id++) {
        uint64_t h = g->cells[id];
        LatLng c; cellToLatLng(h, &c); CellBoundary cb; cellToBoundary(h, &cb);
        nv[cb.numVerts]++;
        double a; cellAreaRads2(h, &a); double ar = fanArea(c, &cb);
        sumLib += a; sumRef += ar; if (ar <= 0) ccwBad++;
        double rel = fabs(a - ar) / ar; if (rel > maxRel) maxRel = rel;
        // shared stretches with each neighbour
        int topo[10] = {0};  // count of neighbours sharing each vertex
        for (int k = 0; k < g->deg[id]; k++) {
            uint64_t nb = g->cells[g->nbr[id][k]];
            CellBoundary nbB; cellToBoundary(nb, &nbB);
            int match[10]; int cnt = 0;
            for (int i = 0; i < cb.numVerts; i++) {
                match[i] = -1; double best = 1e9;
                for (int j = 0; j < nbB.numVerts; j++) { double d = adist(cb.verts[i], nbB.verts[j]); if (d < best) { best = d; if (d < 1e-9 * (res < 8 ? 1 : 0.001)) match[i] = j; } }
                if (match[i] >= 0) { cnt++; topo[i]++; double d = adist(cb.verts[i], nbB.verts[match[i]]); if (d > maxShare) maxShare = d; }
            }
            if (cnt < 2 || cnt > 3) { badShare++; if (badShare < 5) printf("share cnt %d %llx %llx\n", cnt, (unsigned long long)h, (unsigned long long)nb); continue; }
            // consecutive in a (cyclic), reversed in b
            int start = -1;
            for (int i = 0; i < cb.numVerts; i++) if (match[i] >= 0 && match[(i + cb.numVerts - 1) % cb.numVerts] < 0) start = i;
            int okc = start >= 0;
            for (int t = 0; t < cnt && okc; t++) { int i = (start + t) % cb.numVerts; if (match[i] < 0) okc = 0; if (t && okc) { int pj = match[(start + t - 1) % cb.numVerts]; if ((match[i] + 1) % nbB.numVerts != pj) okc = 0; } }
            if (!okc) { badShare++; if (badShare < 5) printf("share order %llx %llx\n", (unsigned long long)h, (unsigned long long)nb); }
            // directed edge
            uint64_t e; H3Error ee = cellsToDirectedEdge(h, nb, &e);
            uint64_t o, d2;
            if (ee || !isValidDirectedEdge(e) || getDirectedEdgeOrigin(e, &o) || getDirectedEdgeDestination(e, &d2) || o != h || d2 != nb) { edgeBad++; if (edgeBad < 5) printf("edge bad %llx %llx\n", (unsigned long long)h, (unsigned long long)nb); continue; }
            CellBoundary eb; directedEdgeToBoundary(e, &eb);
            if (eb.numVerts != cnt) { edgeBad++; if (edgeBad < 5) printf("edge nverts %d vs %d %llx->%llx\n", eb.numVerts, cnt, (unsigned long long)h, (unsigned long long)nb); }
            else for (int t = 0; t < cnt; t++) { double d = adist(eb.verts[t], cb.verts[(start + t) % cb.numVerts]); if (d > maxEdgeB) maxEdgeB = d; }
            double len; edgeLengthRads(e, &len); double lr = 0; for (int t = 0; t + 1 < eb.numVerts; t++) lr += adist(eb.verts[t], eb.verts[t + 1]);
            if (lr > 0 && fabs(len - lr) / lr > maxLenRel) maxLenRel = fabs(len - lr) / lr;
        }
        // vertexes
        uint64_t vs[6]; cellToVertexes(h, vs);
        int ti = 0;
        for (int i = 0; i < cb.numVerts; i++) if (topo[i] == 2) {
            if (ti >= 6 || !vs[ti]) { vtxBad++; break; }
            LatLng vl; vertexToLatLng(vs[ti], &vl); double d = adist(vl, cb.verts[i]); if (d > maxVtx) maxVtx = d;
            if (!isValidVertex(vs[ti])) vtxBad++;
            allv[nallv++] = vs[ti];
            ti++;
        } else if (topo[i] != 1) { vtxBad++; if (vtxBad < 5) printf("topo %d at %llx v%d nv=%d\n", topo[i], (unsigned long long)h, i, cb.numVerts); }
        if (ti != (isPentagon(h) ? 5 : 6)) { vtxBad++; if (vtxBad < 5) printf("topo count %d %llx\n", ti, (unsigned long long)h); }
    }
    qsort(allv, nallv, 8, cmp64);
    long distinct = 0; for (long i = 0; i < nallv; i++) if (!i || allv[i] != allv[i - 1]) distinct++;
    printf("res %d n=%d sumLib-4pi=%.3g sumRef-4pi=%.3g maxRelArea=%.3g maxShare=%.3g badShare=%ld edgeBad=%ld maxEdgeB=%.3g maxLenRel=%.3g vtxBad=%ld maxVtx=%.3g distinctV=%ld (2N-4=%ld) ccwBad=%ld %.1fs\n", res, g->n, sumLib - 4 * M_PI, sumRef - 4 * M_PI, maxRel, maxShare, badShare, edgeBad, maxEdgeB, maxLenRel, vtxBad, maxVtx, distinct, 2L * g->n - 4, ccwBad, (double)(clock() - t0) / CLOCKS_PER_SEC);
    printf("numVerts histogram:"); for (int i = 0; i < 12; i++) if (nv[i]) printf(" %d:%ld", i, nv[i]); printf("\n");
}
