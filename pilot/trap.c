#include <stdio.h>
#include <stdint.h>
#include <signal.h>
#include <sys/mman.h>
#include <unistd.h>
#include <stdlib.h>
#include "h3api.h"
extern char __start_h3data[], __stop_h3data[], __start_h3bss[], __stop_h3bss[];
int touch(int);
static void on_segv(int sig, siginfo_t *si, void *u) { char *a = si->si_addr; const char *w = (a >= __start_h3data && a < __stop_h3data) ? "h3data" : (a >= __start_h3bss && a < __stop_h3bss) ? "h3bss" : "other"; fprintf(stderr, "TRAP write to %s at %p\n", w, (void *)a); _exit(42); }
static void prot(char *s, char *e) { uintptr_t a = (uintptr_t)s & ~4095UL, b = ((uintptr_t)e + 4095) & ~4095UL; if (mprotect((void *)a, b - a, PROT_READ)) perror("mprotect"); }
int main(int argc, char **argv) {
    printf("h3data %p..%p h3bss %p..%p\n", __start_h3data, __stop_h3data, __start_h3bss, __stop_h3bss);
    struct sigaction sa = {0}; sa.sa_sigaction = on_segv; sa.sa_flags = SA_SIGINFO; sigaction(SIGSEGV, &sa, 0);
    prot(__start_h3data, __stop_h3data); prot(__start_h3bss, __stop_h3bss);
    LatLng g = {0.5, 0.5}; H3Index h; latLngToCell(&g, 9, &h); printf("cell %llx\n", (unsigned long long)h);
    GeoPolygon gp; LatLng v[3] = {{0.1, 0.1}, {0.1, 0.2}, {0.2, 0.1}}; gp.geoloop.numVerts = 3; gp.geoloop.verts = v; gp.numHoles = 0; int64_t sz; maxPolygonToCellsSizeExperimental(&gp, 4, 0, &sz); printf("sz %lld\n", (long long)sz);
    if (argc > 1) printf("touch %d\n", touch(3));
    printf("done\n");
}
