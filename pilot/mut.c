// simulated mutation: module-scope scratch
static int scratch[7];
int touch(int i) { scratch[i % 7] = i; return scratch[(i + 1) % 7]; }
