// scratch helpers for design-phase experiments (not the framework)
#include <math.h>
#include <stdint.h>
#include <stdio.h>
#include <stdlib.h>
#include <string.h>
#include "h3api.h"

static const int PENT_BC[12] = {4, 14, 24, 38, 49, 58, 63, 72, 83, 97, 107, 117};
static int is_pent_bc(int bc) {
    for (int i = 0; i < 12; i++)
        if (PENT_BC[i] == bc) return 1;
    return 0;
}
static inline int dig(uint64_t h, int r) { return (h >> (3 * (15 - r))) & 7; }
static inline int resOf(uint64_t h) { return (h >> 52) & 15; }
static inline int bcOf(uint64_t h) { return (h >> 45) & 127; }
static int spec_valid(uint64_t h) {
    if (h >> 63) return 0;
    if (((h >> 59) & 15) != 1) return 0;
    if ((h >> 56) & 7) return 0;
    int res = resOf(h), bc = bcOf(h);
    if (bc >= 122) return 0;
    int first = 0;
    for (int r = 1; r <= 15; r++) {
        int d = dig(h, r);
        if (r <= res) {
            if (d == 7) return 0;
            if (!first && d) first = d;
        } else if (d != 7)
            return 0;
    }
    if (is_pent_bc(bc) && first == 1) return 0;
    return 1;
}
static uint64_t mk(int res, int bc, const int *d) {
    uint64_t h = ((uint64_t)1 << 59) | ((uint64_t)res << 52) | ((uint64_t)bc << 45);
    for (int r = 1; r <= 15; r++) h |= (uint64_t)(r <= res ? d[r - 1] : 7) << (3 * (15 - r));
    return h;
}
// enumerate all cells at res (spec enumerator); callback
typedef void (*cellcb)(uint64_t h, void *u);
static void enum_res(int res, cellcb cb, void *u) {
    int d[15];
    for (int bc = 0; bc < 122; bc++) {
        int pent = is_pent_bc(bc);
        memset(d, 0, sizeof d);
        for (;;) {
            int first = 0;
            for (int i = 0; i < res; i++)
                if (d[i]) { first = d[i]; break; }
            if (!(pent && first == 1)) cb(mk(res, bc, d), u);
            int i = res - 1;
            while (i >= 0 && d[i] == 6) d[i--] = 0;
            if (i < 0) break;
            d[i]++;
        }
    }
}
typedef struct { double x, y, z; } V3;
static V3 tov3(LatLng g) {
    double c = cos(g.lat);
    return (V3){c * cos(g.lng), c * sin(g.lng), sin(g.lat)};
}
static LatLng togeo(V3 v) {
    double n = sqrt(v.x * v.x + v.y * v.y + v.z * v.z);
    return (LatLng){asin(v.z / n), atan2(v.y, v.x)};
}
static V3 cross(V3 a, V3 b) { return (V3){a.y * b.z - a.z * b.y, a.z * b.x - a.x * b.z, a.x * b.y - a.y * b.x}; }
static double dot(V3 a, V3 b) { return a.x * b.x + a.y * b.y + a.z * b.z; }
static V3 add(V3 a, V3 b) { return (V3){a.x + b.x, a.y + b.y, a.z + b.z}; }
static V3 sub(V3 a, V3 b) { return (V3){a.x - b.x, a.y - b.y, a.z - b.z}; }
static V3 scl(V3 a, double s) { return (V3){a.x * s, a.y * s, a.z * s}; }
static V3 nrm(V3 a) { return scl(a, 1 / sqrt(dot(a, a))); }
static double ang(V3 a, V3 b) { V3 c = cross(a, b); return atan2(sqrt(dot(c, c)), dot(a, b)); }
