#include "graph.h"
#include <time.h>
// Pilot for C07: polygonToCells (legacy) and Experimental CENTER vs independent point-in-polygon over ALL cells of a resolution
static int cmp64(const void *a, const void *b) { uint64_t x = *(uint64_t *)a, y = *(uint64_t *)b; return x < y ? -1 : x > y; }
typedef struct { int n; LatLng v[16]; } Loop;
static int isTM(const Loop *l) { for (int i = 0; i < l->n; i++) if (fabs(l->v[i].lng - l->v[(i + 1) % l->n].lng) > M_PI) return 1; return 0; }
static double nl(double lng, int tm) { return tm && lng < 0 ? lng + 2 * M_PI : lng; }
// returns 1 inside, 0 outside, -1 too close to boundary
static int pip(const Loop *l, int tm, LatLng p, double eps) {
    double px = nl(p.lng, tm), py = p.lat; int c = 0;
    for (int i = 0; i < l->n; i++) {
        double ax = nl(l->v[i].lng, tm), ay = l->v[i].lat, bx = nl(l->v[(i + 1) % l->n].lng, tm), by = l->v[(i + 1) % l->n].lat;
        double vx = bx - ax, vy = by - ay, wx = px - ax, wy = py - ay, vv = vx * vx + vy * vy, t = vv > 0 ? (wx * vx + wy * vy) / vv : 0;
        if (t < 0) t = 0; if (t > 1) t = 1;
        if (hypot(wx - t * vx, wy - t * vy) < eps) return -1;
        if ((ay > py) != (by > py)) { double xi = ax + (py - ay) / (by - ay) * (bx - ax); if (xi > px) c = !c; }
    }
    return c;
}
static long nPoly, misLegacy, misExp, legacyErr, expErr, undec, sizeBadL, sizeBadE, totalCells;
static void runPoly(Graph *g, int res, Loop *outer, Loop *holes, int nh, const char *tag) {
    GeoLoop hl[4]; for (int i = 0; i < nh; i++) { hl[i].numVerts = holes[i].n; hl[i].verts = holes[i].v; }
    GeoPolygon gp = {.geoloop = {outer->n, outer->v}, .numHoles = nh, .holes = hl};
    nPoly++;
    int tm = isTM(outer);
    // oracle set
    uint64_t *exp_ = malloc(g->n * 8); int ne = 0; char *und = calloc(g->n, 1);
    for (int id = 0; id < g->n; id++) {
        LatLng c; cellToLatLng(g->cells[id], &c);
        int in = pip(outer, tm, c, 1e-9);
        if (in < 0) { und[id] = 1; undec++; continue; }
        for (int k = 0; k < nh && in == 1; k++) { int ih = pip(&holes[k], tm, c, 1e-9); if (ih < 0) { und[id] = 1; undec++; in = 2; } else if (ih) in = 0; }
        if (in == 2) continue;
        if (in) exp_[ne++] = g->cells[id];
    }
    totalCells += ne;
    for (int algo = 0; algo < 2; algo++) {
        int64_t sz; H3Error e = algo ? maxPolygonToCellsSizeExperimental(&gp, res, 0, &sz) : maxPolygonToCellsSize(&gp, res, 0, &sz);
        if (e) { if (algo) expErr++; else legacyErr++; printf("%s size err %d algo %d\n", tag, e, algo); continue; }
        uint64_t *out = calloc(sz + 1, 8);
        e = algo ? polygonToCellsExperimental(&gp, res, 0, sz, out) : polygonToCells(&gp, res, 0, out);
        if (e) { if (algo) expErr++; else legacyErr++; printf("%s err %d algo %d (oracle count %d, sz %lld)\n", tag, e, algo, ne, (long long)sz); free(out); continue; }
        // compare: every out cell (non-zero) that's decided must be in exp_, and every exp_ cell in out; no dups
        int no = 0; for (int64_t i = 0; i < sz; i++) if (out[i]) out[no++] = out[i];
        qsort(out, no, 8, cmp64);
        int bad = 0; for (int i = 1; i < no; i++) if (out[i] == out[i - 1]) bad++;
        int i = 0, j = 0, extra = 0, missing = 0;
        while (i < no || j < ne) {
            if (j >= ne || (i < no && out[i] < exp_[j])) { int id = gid(g, out[i]); if (id < 0 || !und[id]) { extra++; if (extra < 3) printf("  %s algo %d extra %llx\n", tag, algo, (unsigned long long)out[i]); } i++; }
            else if (i >= no || exp_[j] < out[i]) { missing++; if (missing < 3) printf("  %s algo %d missing %llx\n", tag, algo, (unsigned long long)exp_[j]); j++; }
            else { i++; j++; }
        }
        if (bad || extra || missing) { if (algo) misExp++; else misLegacy++; printf("%s algo %d res %d: dup %d extra %d missing %d (oracle %d, got %d)\n", tag, algo, res, bad, extra, missing, ne, no); }
        free(out);
    }
    free(exp_); free(und);
}
int main(int argc, char **argv) {
    int res = atoi(argv[1]);
    Graph *g = calloc(1, sizeof *g); int64_t nc; getNumCells(res, &nc); g->cells = malloc(nc * 8); enum_res(res, addcb, g);
    clock_t t0 = clock();
    double edge; getHexagonEdgeLengthAvgKm(res, &edge); double u = edge / 6371.007180918475;  // cell edge in radians
    // anchors: pentagons, some hex base cells, antimeridian, near poles, face edges
    LatLng anchors[64]; int na = 0;
    uint64_t pents[12]; getPentagons(res, pents);
    for (int i = 0; i < 12; i++) cellToLatLng(pents[i], &anchors[na++]);
    for (int bc = 0; bc < 122; bc += 11) { uint64_t h; int d[15] = {0}; h = mk(res, bc, d); cellToLatLng(h, &anchors[na++]); }
    anchors[na++] = (LatLng){0.3, M_PI - 0.001}; anchors[na++] = (LatLng){-0.7, -M_PI + 0.0007}; anchors[na++] = (LatLng){1.2, 3.1}; anchors[na++] = (LatLng){-1.35, -3.0};
    anchors[na++] = (LatLng){1.45, 0.5}; anchors[na++] = (LatLng){0.0123, 0.0456};
    // templates in units of u (x=lng-ish, y=lat)
    static const double T[][16][2] = {
        {{-1.31, -1.07}, {1.43, -0.93}, {0.11, 1.77}},                                       // triangle
        {{-2.13, -2.21}, {2.37, -2.09}, {2.19, 2.33}, {-2.41, 2.07}},                        // quad
        {{-3.1, -3.2}, {3.3, -3.05}, {3.15, -0.4}, {0.35, -0.55}, {0.25, 3.1}, {-3.2, 3.25}},  // L (concave)
        {{-6.1, -0.13}, {6.3, -0.21}, {6.2, 0.17}, {-6.25, 0.22}},                           // needle
        {{-0.21, -0.17}, {0.23, -0.19}, {0.03, 0.27}},                                       // sub-cell triangle
        {{-7.3, -6.9}, {7.1, -7.2}, {8.2, 0.3}, {6.9, 7.4}, {-0.2, 5.1}, {-7.4, 7.2}, {-5.1, 0.1}},  // big concave
    };
    static const int TN[] = {3, 4, 6, 4, 3, 7};
    static const double H[][8][2] = {{{-0.9, -0.8}, {-1.0, 0.9}, {0.8, 1.0}, {0.9, -0.7}}};  // CW hole (for quad/L/big) in units
    static const double scales[] = {1.0, 2.7, 0.37};
    for (int a = 0; a < na; a++) for (int t = 0; t < 6; t++) for (int s = 0; s < 3; s++) {
        double sc = scales[s] * u; LatLng c = anchors[a];
        if (fabs(c.lat) + 9 * sc > M_PI_2 - 0.01) continue;  // stay off the poles
        if (9 * sc / cos(c.lat) > 1.5) continue;
        Loop o; o.n = TN[t];
        for (int i = 0; i < o.n; i++) { o.v[i].lat = c.lat + T[t][i][1] * sc; double l = c.lng + T[t][i][0] * sc / cos(c.lat); if (l > M_PI) l -= 2 * M_PI; if (l < -M_PI) l += 2 * M_PI; o.v[i].lng = l; }
        char tag[64]; snprintf(tag, sizeof tag, "a%d t%d s%d", a, t, s);
        runPoly(g, res, &o, NULL, 0, tag);
        if (t == 1 || t == 5) {
            Loop h; h.n = 4; double hs = (t == 1 ? 1.0 : 3.0) * sc;
            for (int i = 0; i < 4; i++) { h.v[i].lat = c.lat + H[0][i][1] * hs; double l = c.lng + H[0][i][0] * hs / cos(c.lat); if (l > M_PI) l -= 2 * M_PI; if (l < -M_PI) l += 2 * M_PI; h.v[i].lng = l; }
            snprintf(tag, sizeof tag, "a%d t%d s%d hole", a, t, s);
            runPoly(g, res, &o, &h, 1, tag);
        }
    }
    printf("res %d polys %ld oracleCells %ld legacy mismatch %ld err %ld | experimental mismatch %ld err %ld | undecided %ld  %.1fs\n", res, nPoly, totalCells, misLegacy, legacyErr, misExp, expErr, undec, (double)(clock() - t0) / CLOCKS_PER_SEC);
}
