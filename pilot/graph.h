// scratch: dense cell table + geometric neighbour graph for a whole resolution
#include "common.h"
typedef struct { int n; uint64_t *cells; int (*nbr)[6]; int *deg; } Graph;
static void addcb(uint64_t h, void *u) { Graph *g = u; g->cells[g->n++] = h; }
static int gid(const Graph *g, uint64_t h) {
    int lo = 0, hi = g->n - 1;
    while (lo <= hi) { int m = (lo + hi) / 2; if (g->cells[m] == h) return m; if (g->cells[m] < h) lo = m + 1; else hi = m - 1; }
    return -1;
}
static Graph *buildGraph(int res) {
    Graph *g = calloc(1, sizeof *g);
    int64_t nc; getNumCells(res, &nc);
    g->cells = malloc(nc * 8); g->nbr = malloc(nc * sizeof(int[6])); g->deg = calloc(nc, sizeof(int));
    enum_res(res, addcb, g);  // spec enumerator yields ascending order
    for (int i = 1; i < g->n; i++) if (g->cells[i - 1] >= g->cells[i]) { printf("enum not sorted\n"); exit(1); }
    for (int id = 0; id < g->n; id++) {
        uint64_t h = g->cells[id];
        LatLng c; cellToLatLng(h, &c);
        CellBoundary cb; cellToBoundary(h, &cb);
        V3 cv = tov3(c); V3 bv[10]; double maxseg = 0;
        for (int i = 0; i < cb.numVerts; i++) bv[i] = tov3(cb.verts[i]);
        for (int i = 0; i < cb.numVerts; i++) { double l = ang(bv[i], bv[(i + 1) % cb.numVerts]); if (l > maxseg) maxseg = l; }
        for (int i = 0; i < cb.numVerts; i++) {
            V3 a = bv[i], b = bv[(i + 1) % cb.numVerts];
            if (ang(a, b) < 0.05 * maxseg) continue;
            V3 m = nrm(add(a, b));
            LatLng p = togeo(nrm(add(m, scl(sub(m, cv), 0.05))));
            uint64_t n; latLngToCell(&p, res, &n);
            int nid = gid(g, n);
            if (nid < 0 || nid == id) { printf("bad probe\n"); exit(1); }
            int f = 0; for (int k = 0; k < g->deg[id]; k++) if (g->nbr[id][k] == nid) f = 1;
            if (!f) { if (g->deg[id] >= 6) { printf("deg>6\n"); exit(1);} g->nbr[id][g->deg[id]++] = nid; }
        }
    }
    // symmetry check
    for (int id = 0; id < g->n; id++) for (int k = 0; k < g->deg[id]; k++) {
        int j = g->nbr[id][k], f = 0;
        for (int m = 0; m < g->deg[j]; m++) if (g->nbr[j][m] == id) f = 1;
        if (!f) { printf("asym %d %d\n", id, j); exit(1); }
    }
    return g;
}
// BFS distances from src into dist[] (int), up to maxd (or -1 for unlimited); returns count reached
static int bfs(const Graph *g, int src, int *dist, int *queue, int maxd) {
    for (int i = 0; i < g->n; i++) dist[i] = -1;
    int qh = 0, qt = 0; dist[src] = 0; queue[qt++] = src;
    while (qh < qt) {
        int u = queue[qh++];
        if (maxd >= 0 && dist[u] >= maxd) continue;
        for (int k = 0; k < g->deg[u]; k++) { int v = g->nbr[u][k]; if (dist[v] < 0) { dist[v] = dist[u] + 1; queue[qt++] = v; } }
    }
    return qt;
}
