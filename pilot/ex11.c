#include "graph.h"
#include <time.h>
// Pilot for C07: polygonToCells (legacy) and Experimental CENTER vs independent point-in-polygon over ALL cells of a resolution
static int cmp64(const void *a, const void *b) { uint64_t x = *(uint64_t *)a, y = *(uint64_t *)b; return x < y ? -1 : x > y; }
typedef struct { int n; LatLng v[16]; } Loop;
static int isTM(const Loop *l) { for (int i = 0; i < l->n; i++) if (fabs(l->v[i].lng - l->v[(i + 1) % l->n].lng) > M_PI) return 1; return 0; }
static double nl(double lng, int tm) { return tm && lng < 0 ? lng + 2 * M_PI : lng; }
// returns 1 inside, 0 outside, -1 too close to boundary
static int pip(const Loop *l, int tm, LatLng p, double eps) {
    double px = nl(p.lng, tm), py = p.lat; int c = 0;
    for (int i = 0; i < l->n; i++) {
        double ax = nl(l->v[i].lng, tm), ay = l->v[i].lat, bx = nl(l->v[(i + 1) % l->n].lng, tm), by = l->v[(i + 1) % l->n].lat;
        double vx = bx - ax, vy = by - ay, wx = px - ax, wy = py - ay, vv = vx * vx + vy * vy, t = vv > 0 ? (wx * vx + wy * vy) / vv : 0;
        if (t < 0) t = 0; if (t > 1) t = 1;
        if (hypot(wx - t * vx, wy - t * vy) < eps) return -1;
        if ((ay > py) != (by > py)) { double xi = ax + (py - ay) / (by - ay) * (bx - ax); if (xi > px) c = !c; }
    }
    return c;
}

static long nPoly, nestBad, sizeBad, fullNec, fullSuf, ovMust, ovNever, undec, decided, errs, boundsBad, dupBad;
static double sx(double lng, double ref) { while (lng - ref > M_PI) lng -= 2 * M_PI; while (lng - ref < -M_PI) lng += 2 * M_PI; return lng; }
typedef struct { double x, y; } Q;
static double segseg(Q a, Q b, Q c, Q d) {
    // min distance between segments ab and cd (0 if they intersect)
    double d1 = (b.x - a.x) * (c.y - a.y) - (b.y - a.y) * (c.x - a.x), d2 = (b.x - a.x) * (d.y - a.y) - (b.y - a.y) * (d.x - a.x);
    double d3 = (d.x - c.x) * (a.y - c.y) - (d.y - c.y) * (a.x - c.x), d4 = (d.x - c.x) * (b.y - c.y) - (d.y - c.y) * (b.x - c.x);
    if (((d1 > 0) != (d2 > 0)) && ((d3 > 0) != (d4 > 0))) return 0;
    double best = 1e18; Q P[4] = {a, b, c, d}; Q S[4][2] = {{c, d}, {c, d}, {a, b}, {a, b}};
    for (int k = 0; k < 4; k++) { Q p = P[k], u = S[k][0], v = S[k][1]; double vx = v.x - u.x, vy = v.y - u.y, wx = p.x - u.x, wy = p.y - u.y, vv = vx * vx + vy * vy, t = vv > 0 ? (wx * vx + wy * vy) / vv : 0; if (t < 0) t = 0; if (t > 1) t = 1; double dd = hypot(wx - t * vx, wy - t * vy); if (dd < best) best = dd; }
    return best;
}
static int pipQ(Q *v, int n, Q p) { int c = 0; for (int i = 0; i < n; i++) { Q a = v[i], b = v[(i + 1) % n]; if ((a.y > p.y) != (b.y > p.y)) { double xi = a.x + (p.y - a.y) / (b.y - a.y) * (b.x - a.x); if (xi > p.x) c = !c; } } return c; }
static int cmpu(const void *a, const void *b) { uint64_t x = *(uint64_t *)a, y = *(uint64_t *)b; return x < y ? -1 : x > y; }
static int has(uint64_t *s, int n, uint64_t h) { return bsearch(&h, s, n, 8, cmpu) != NULL; }
static void runPoly(Graph *g, int res, Loop *outer, Loop *holes, int nh, const char *tag) {
    GeoLoop hl[4]; for (int i = 0; i < nh; i++) { hl[i].numVerts = holes[i].n; hl[i].verts = holes[i].v; }
    GeoPolygon gp = {.geoloop = {outer->n, outer->v}, .numHoles = nh, .holes = hl};
    nPoly++;
    uint64_t *sets[4]; int cnt[4];
    for (int mode = 0; mode < 4; mode++) {
        int64_t sz; H3Error e = maxPolygonToCellsSizeExperimental(&gp, res, mode, &sz);
        if (e) { errs++; printf("%s size err %d mode %d\n", tag, e, mode); sz = 0; }
        uint64_t *out = calloc(sz + 2, 8); out[sz] = 0xabcdef; 
        e = polygonToCellsExperimental(&gp, res, mode, sz, out);
        if (e) { if (e == 14) { sizeBad++; printf("%s mode %d: E_MEMORY_BOUNDS with max size %lld\n", tag, mode, (long long)sz); } else { errs++; printf("%s err %d mode %d\n", tag, e, mode);} }
        if (out[sz] != 0xabcdef) boundsBad++;
        int n = 0; for (int64_t i = 0; i < sz; i++) if (out[i]) out[n++] = out[i];
        qsort(out, n, 8, cmpu); for (int i = 1; i < n; i++) if (out[i] == out[i - 1]) dupBad++;
        sets[mode] = out; cnt[mode] = n;
        // smaller capacity
        if (n > 0) { uint64_t *o2 = calloc(n + 1, 8); o2[n - 1] = 0; o2[n] = 0x1234; H3Error e2 = polygonToCellsExperimental(&gp, res, mode, n - 1, o2); if (e2 != 14 || o2[n] != 0x1234 || o2[n - 1] != 0) { boundsBad++; printf("%s mode %d small capacity: e=%d\n", tag, mode, e2); } free(o2); }
    }
    // nesting FULL(1) in CENTER(0) in OVERLAPPING(2) in OVERLAPPING_BBOX(3)
    int order[4] = {1, 0, 2, 3};
    for (int k = 0; k < 3; k++) for (int i = 0; i < cnt[order[k]]; i++) if (!has(sets[order[k + 1]], cnt[order[k + 1]], sets[order[k]][i])) { nestBad++; if (nestBad < 10) printf("%s nest bad: %llx in mode %d not in mode %d\n", tag, (unsigned long long)sets[order[k]][i], order[k], order[k + 1]); }
    // semantic check over all cells
    double ref = outer->v[0].lng;
    Q po[16]; for (int i = 0; i < outer->n; i++) po[i] = (Q){sx(outer->v[i].lng, ref), outer->v[i].lat};
    Q ph[4][16]; for (int k = 0; k < nh; k++) for (int i = 0; i < holes[k].n; i++) ph[k][i] = (Q){sx(holes[k].v[i].lng, ref), holes[k].v[i].lat};
    double minx = 1e9, maxx = -1e9, miny = 1e9, maxy = -1e9; for (int i = 0; i < outer->n; i++) { if (po[i].x < minx) minx = po[i].x; if (po[i].x > maxx) maxx = po[i].x; if (po[i].y < miny) miny = po[i].y; if (po[i].y > maxy) maxy = po[i].y; }
    for (int id = 0; id < g->n; id++) {
        uint64_t h = g->cells[id]; LatLng c; cellToLatLng(h, &c);
        CellBoundary cb; cellToBoundary(h, &cb);
        Q cv[10]; double cminx = 1e9, cmaxx = -1e9, cminy = 1e9, cmaxy = -1e9; int polar = 0;
        double cref = sx(c.lng, ref);
        for (int i = 0; i < cb.numVerts; i++) { cv[i] = (Q){sx(sx(cb.verts[i].lng, c.lng) - c.lng + cref, cref), cb.verts[i].lat}; cv[i].x = cref + sx(cb.verts[i].lng - c.lng, 0); if (cv[i].x < cminx) cminx = cv[i].x; if (cv[i].x > cmaxx) cmaxx = cv[i].x; if (cv[i].y < cminy) cminy = cv[i].y; if (cv[i].y > cmaxy) cmaxy = cv[i].y; }
        if (cmaxx - cminx > M_PI) polar = 1;  // wraps: contains a pole
        int inF = has(sets[1], cnt[1], h), inO = has(sets[2], cnt[2], h);
        if (polar) continue;
        // quick reject: far away
        double band = 1e-9;
        for (int i = 0; i < cb.numVerts; i++) { LatLng a = cb.verts[i], b = cb.verts[(i + 1) % cb.numVerts]; V3 m = nrm(add(tov3(a), tov3(b))); LatLng gm = togeo(m); Q pm = {(cv[i].x + cv[(i + 1) % cb.numVerts].x) / 2, (a.lat + b.lat) / 2}; double gx = cref + sx(gm.lng - c.lng, 0); double dv = hypot(gx - pm.x, gm.lat - pm.y); if (2 * dv + 1e-9 > band) band = 2 * dv + 1e-9; }
        if (cminx > maxx + band || cmaxx < minx - band || cminy > maxy + band || cmaxy < miny - band) { if (inO) { ovNever++; if (ovNever < 10) printf("%s OVERLAPPING has far cell %llx\n", tag, (unsigned long long)h); } decided++; continue; }
        // min boundary distance & crossing
        double mind = 1e18; int cross = 0;
        for (int i = 0; i < cb.numVerts; i++) { Q a = cv[i], b = cv[(i + 1) % cb.numVerts];
            for (int k = -1; k < nh; k++) { Q *lp = k < 0 ? po : ph[k]; int ln = k < 0 ? outer->n : holes[k].n; for (int j = 0; j < ln; j++) { double d = segseg(a, b, lp[j], lp[(j + 1) % ln]); if (d < mind) mind = d; } } }
        if (mind < band) { undec++; continue; }
        decided++;
        // boundaries are separated by >= band: containment relations are determined by single points
        int v0in = pipQ(po, outer->n, cv[0]); int inHole = 0; for (int k = 0; k < nh; k++) if (pipQ(ph[k], holes[k].n, cv[0])) inHole = 1;
        int polyInCell = pipQ(cv, cb.numVerts, po[0]); int holeInCell = 0; for (int k = 0; k < nh; k++) if (pipQ(cv, cb.numVerts, ph[k][0])) holeInCell = 1;
        int wholly = v0in && !inHole && !holeInCell;         // cell wholly inside polygon interior
        int overlap = (v0in && !inHole) || polyInCell || holeInCell; // shares a point
        if (wholly && !inF) { fullSuf++; if (fullSuf < 10) printf("%s FULL misses wholly-inside cell %llx (mind %.3g band %.3g)\n", tag, (unsigned long long)h, mind, band); }
        if (!wholly && inF) { fullNec++; if (fullNec < 10) printf("%s FULL has non-contained cell %llx\n", tag, (unsigned long long)h); }
        if (overlap && !inO) { ovMust++; if (ovMust < 10) printf("%s OVERLAPPING misses cell %llx (v0in %d polyInCell %d)\n", tag, (unsigned long long)h, v0in, polyInCell); }
        if (!overlap && inO) { ovNever++; if (ovNever < 10) printf("%s OVERLAPPING has disjoint cell %llx mind %.3g\n", tag, (unsigned long long)h, mind); }
    }
    for (int m = 0; m < 4; m++) free(sets[m]);
}
int main(int argc, char **argv) {
    int res = atoi(argv[1]);
    Graph *g = calloc(1, sizeof *g); int64_t nc; getNumCells(res, &nc); g->cells = malloc(nc * 8); enum_res(res, addcb, g);
    clock_t t0 = clock();
    double edge; getHexagonEdgeLengthAvgKm(res, &edge); double u = edge / 6371.007180918475;  // cell edge in radians
    // anchors: pentagons, some hex base cells, antimeridian, near poles, face edges
    LatLng anchors[64]; int na = 0;
    uint64_t pents[12]; getPentagons(res, pents);
    for (int i = 0; i < 12; i++) cellToLatLng(pents[i], &anchors[na++]);
    for (int bc = 0; bc < 122; bc += 11) { uint64_t h; int d[15] = {0}; h = mk(res, bc, d); cellToLatLng(h, &anchors[na++]); }
    anchors[na++] = (LatLng){0.3, M_PI - 0.001}; anchors[na++] = (LatLng){-0.7, -M_PI + 0.0007}; anchors[na++] = (LatLng){1.2, 3.1}; anchors[na++] = (LatLng){-1.35, -3.0};
    anchors[na++] = (LatLng){1.45, 0.5}; anchors[na++] = (LatLng){0.0123, 0.0456};
    // templates in units of u (x=lng-ish, y=lat)
    static const double T[][16][2] = {
        {{-1.31, -1.07}, {1.43, -0.93}, {0.11, 1.77}},                                       // triangle
        {{-2.13, -2.21}, {2.37, -2.09}, {2.19, 2.33}, {-2.41, 2.07}},                        // quad
        {{-3.1, -3.2}, {3.3, -3.05}, {3.15, -0.4}, {0.35, -0.55}, {0.25, 3.1}, {-3.2, 3.25}},  // L (concave)
        {{-6.1, -0.13}, {6.3, -0.21}, {6.2, 0.17}, {-6.25, 0.22}},                           // needle
        {{-0.21, -0.17}, {0.23, -0.19}, {0.03, 0.27}},                                       // sub-cell triangle
        {{-7.3, -6.9}, {7.1, -7.2}, {8.2, 0.3}, {6.9, 7.4}, {-0.2, 5.1}, {-7.4, 7.2}, {-5.1, 0.1}},  // big concave
    };
    static const int TN[] = {3, 4, 6, 4, 3, 7};
    static const double H[][8][2] = {{{-0.9, -0.8}, {-1.0, 0.9}, {0.8, 1.0}, {0.9, -0.7}}};  // CW hole (for quad/L/big) in units
    static const double scales[] = {1.0, 2.7, 0.37};
    for (int a = 0; a < na; a++) for (int t = 0; t < 6; t++) for (int s = 0; s < 3; s++) {
        double sc = scales[s] * u; LatLng c = anchors[a];
        if (fabs(c.lat) + 9 * sc > M_PI_2 - 0.01) continue;  // stay off the poles
        if (9 * sc / cos(c.lat) > 1.5) continue;
        Loop o; o.n = TN[t];
        for (int i = 0; i < o.n; i++) { o.v[i].lat = c.lat + T[t][i][1] * sc; double l = c.lng + T[t][i][0] * sc / cos(c.lat); if (l > M_PI) l -= 2 * M_PI; if (l < -M_PI) l += 2 * M_PI; o.v[i].lng = l; }
        char tag[64]; snprintf(tag, sizeof tag, "a%d t%d s%d", a, t, s);
        runPoly(g, res, &o, NULL, 0, tag);
        if (t == 1 || t == 5) {
            Loop h; h.n = 4; double hs = (t == 1 ? 1.0 : 3.0) * sc;
            for (int i = 0; i < 4; i++) { h.v[i].lat = c.lat + H[0][i][1] * hs; double l = c.lng + H[0][i][0] * hs / cos(c.lat); if (l > M_PI) l -= 2 * M_PI; if (l < -M_PI) l += 2 * M_PI; h.v[i].lng = l; }
            snprintf(tag, sizeof tag, "a%d t%d s%d hole", a, t, s);
            runPoly(g, res, &o, &h, 1, tag);
        }
    }
    printf("res %d polys %ld decided %ld undecided %ld | nestBad %ld sizeBad %ld boundsBad %ld dup %ld fullNec %ld fullSuf %ld ovMust %ld ovNever %ld errs %ld %.1fs\n", res, nPoly, decided, undec, nestBad, sizeBad, boundsBad, dupBad, fullNec, fullSuf, ovMust, ovNever, errs, (double)(clock() - t0) / CLOCKS_PER_SEC);
}
