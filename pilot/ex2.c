#include "common.h"
#include <time.h>
// Experiment C02: near-edge probe points -> latLngToCell -> containment in returned cell's boundary with tolerance
static double worst = 0; static uint64_t worstCell; static LatLng worstP; static long nprobe, nfail, nbadres;
static double worstScaled = 0;

// angular distance from p to arc a-b (unit vectors)
static double distArc(V3 p, V3 a, V3 b) {
    V3 n = cross(a, b); double nn = sqrt(dot(n, n));
    if (nn < 1e-300) return ang(p, a);
    n = scl(n, 1 / nn);
    // projection of p onto the great circle
    V3 q = sub(p, scl(n, dot(n, p)));
    double qn = sqrt(dot(q, q));
    if (qn > 1e-300) {
        q = scl(q, 1 / qn);
        // is q within arc? check a x q and q x b same direction as n
        if (dot(cross(a, q), n) >= 0 && dot(cross(q, b), n) >= 0) return fabs(asin(fmax(-1, fmin(1, dot(n, p)))));
    }
    double da = ang(p, a), db = ang(p, b);
    return da < db ? da : db;
}
// point in polygon by winding in gnomonic chart centred on c
static int insideGnomonic(V3 p, V3 c, V3 *bv, int n) {
    // basis
    V3 e1 = nrm(cross((fabs(c.z) < 0.9) ? (V3){0, 0, 1} : (V3){1, 0, 0}, c));
    V3 e2 = cross(c, e1);
    double px = dot(p, e1) / dot(p, c), py = dot(p, e2) / dot(p, c);
    int wn = 0;
    for (int i = 0; i < n; i++) {
        V3 a = bv[i], b = bv[(i + 1) % n];
        double ax = dot(a, e1) / dot(a, c) - px, ay = dot(a, e2) / dot(a, c) - py;
        double bx = dot(b, e1) / dot(b, c) - px, by = dot(b, e2) / dot(b, c) - py;
        double cr = ax * by - ay * bx;
        if (ay <= 0) { if (by > 0 && cr > 0) wn++; }
        else { if (by <= 0 && cr < 0) wn--; }
    }
    return wn != 0;
}

typedef struct { double x, y; } P2;
// accurate local gnomonic projection about c0
static P2 gno(LatLng c0, LatLng p) {
    double dlat = p.lat - c0.lat, dlng = p.lng - c0.lng;
    if (dlng > M_PI) dlng -= 2 * M_PI; if (dlng < -M_PI) dlng += 2 * M_PI;
    double s2 = sin(dlng / 2); s2 *= s2;
    double cosc = cos(dlat) - 2 * cos(c0.lat) * cos(p.lat) * s2;
    P2 r;
    r.x = cos(p.lat) * sin(dlng) / cosc;
    r.y = (sin(dlat) + 2 * sin(c0.lat) * cos(p.lat) * s2) / cosc;
    return r;
}
static LatLng ungno(LatLng c0, P2 q) {
    double rho = hypot(q.x, q.y);
    if (rho == 0) return c0;
    double c = atan(rho);
    LatLng g;
    g.lat = asin(cos(c) * sin(c0.lat) + q.y * sin(c) * cos(c0.lat) / rho);
    g.lng = c0.lng + atan2(q.x * sin(c), rho * cos(c0.lat) * cos(c) - q.y * sin(c0.lat) * sin(c));
    if (g.lng > M_PI) g.lng -= 2 * M_PI; if (g.lng < -M_PI) g.lng += 2 * M_PI;
    return g;
}
static double segdist(P2 p, P2 a, P2 b) {
    double vx = b.x - a.x, vy = b.y - a.y, wx = p.x - a.x, wy = p.y - a.y;
    double vv = vx * vx + vy * vy;
    double t = vv > 0 ? (wx * vx + wy * vy) / vv : 0;
    if (t < 0) t = 0; if (t > 1) t = 1;
    return hypot(wx - t * vx, wy - t * vy);
}
static int inpoly(P2 p, P2 *v, int n) {
    int wn = 0;
    for (int i = 0; i < n; i++) {
        P2 a = v[i], b = v[(i + 1) % n];
        double cr = (a.x - p.x) * (b.y - p.y) - (a.y - p.y) * (b.x - p.x);
        if (a.y <= p.y) { if (b.y > p.y && cr > 0) wn++; }
        else { if (b.y <= p.y && cr < 0) wn--; }
    }
    return wn != 0;
}
static void probe(LatLng p, int res) {
    uint64_t h;
    nprobe++;
    H3Error e = latLngToCell(&p, res, &h);
    if (e || !spec_valid(h) || resOf(h) != res) { nbadres++; printf("bad result %d %llx\n", e, (unsigned long long)h); return; }
    LatLng c; cellToLatLng(h, &c);
    CellBoundary cb; cellToBoundary(h, &cb);
    P2 bv[10]; for (int i = 0; i < cb.numVerts; i++) bv[i] = gno(c, cb.verts[i]);
    P2 pv = gno(c, p);
    if (inpoly(pv, bv, cb.numVerts)) return;
    double d = 1e9;
    for (int i = 0; i < cb.numVerts; i++) { double x = segdist(pv, bv[i], bv[(i + 1) % cb.numVerts]); if (x < d) d = x; }
    double rho2 = pv.x * pv.x + pv.y * pv.y;
    d = d / (1 + rho2);  // lower bound on angular distance
    double tol = fmax(2e-12, 4e-15 / cos(p.lat));
    if (d > worst) { worst = d; worstCell = h; worstP = p; }
    if (d / tol > worstScaled) worstScaled = d / tol;
    if (d > tol) { nfail++; if (nfail < 20) printf("FAIL res %d cell %llx p=(%.17g,%.17g) d=%.3g tol=%.3g\n", res, (unsigned long long)h, p.lat, p.lng, d, tol); }
}
static void cellProbes(uint64_t h, void *u) {
    int res = resOf(h);
    LatLng c; cellToLatLng(h, &c);
    CellBoundary cb; cellToBoundary(h, &cb);
    P2 bv[10]; for (int i = 0; i < cb.numVerts; i++) bv[i] = gno(c, cb.verts[i]);
    static const double ts[] = {0, 1e-9, 1e-4, 0.1, 0.5, 0.9, 1 - 1e-4};
    for (int i = 0; i < cb.numVerts; i++) {
        P2 a = bv[i], b = bv[(i + 1) % cb.numVerts];
        for (unsigned ti = 0; ti < sizeof ts / sizeof *ts; ti++) {
            P2 m = {a.x * (1 - ts[ti]) + b.x * ts[ti], a.y * (1 - ts[ti]) + b.y * ts[ti]};
            for (int k = 1; k <= 13; k++) {
                double f = pow(10, -k);
                for (int sgn = -1; sgn <= 1; sgn += 1) {
                    P2 q = {m.x * (1 + sgn * f), m.y * (1 + sgn * f)};
                    probe(ungno(c, q), res);
                }
            }
        }
    }
    probe(c, res);
}
int main(int argc, char **argv) {
    int r = atoi(argv[1]); int full = atoi(argv[2]);
    clock_t t0 = clock();
    if (full) enum_res(r, cellProbes, 0);
    else {
        int d[15];
        for (int bc = 0; bc < 122; bc++) {
            if (!(is_pent_bc(bc) || bc % 7 == 0)) continue;
            for (int a = 0; a < 7; a++) for (int b = 0; b < 7; b++) for (int i = 0; i <= r; i += (r > 6 ? 4 : 2)) {
                for (int j = 0; j < r; j++) d[j] = j < i ? a : b;
                uint64_t h = mk(r, bc, d);
                if (!spec_valid(h)) continue;
                cellProbes(h, 0);
            }
        }
    }
    printf("res %d full=%d probes %ld fails %ld bad %ld worst outside dist %.3g (cell %llx p %.17g %.17g) worst/tol %.3g  %.1fs\n", r, full, nprobe, nfail, nbadres, worst, (unsigned long long)worstCell, worstP.lat, worstP.lng, worstScaled, (double)(clock() - t0) / CLOCKS_PER_SEC);
}
