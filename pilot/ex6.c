#include "graph.h"
static int cmp64(const void *a, const void *b) { uint64_t x = *(uint64_t *)a, y = *(uint64_t *)b; return x < y ? -1 : x > y; }
#include <time.h>
// Pilot for C08/C10/C11: shared boundary stretches, areas, directed edges, vertexes over a full resolution
typedef struct { double x, y; } P2;
static P2 gno(LatLng c0, LatLng p) {
    double dlat = p.lat - c0.lat, dlng = p.lng - c0.lng;
    if (dlng > M_PI) dlng -= 2 * M_PI; if (dlng < -M_PI) dlng += 2 * M_PI;
    double s2 = sin(dlng / 2); s2 *= s2;
    double cosc = cos(dlat) - 2 * cos(c0.lat) * cos(p.lat) * s2;
    P2 r; r.x = cos(p.lat) * sin(dlng) / cosc; r.y = (sin(dlat) + 2 * sin(c0.lat) * cos(p.lat) * s2) / cosc; return r;
}
// accurate small angular distance between two latlngs (haversine-free: via local chart)
static double adist(LatLng a, LatLng b) { P2 q = gno(a, b); return atan(hypot(q.x, q.y)); }
static double fanArea(LatLng c, CellBoundary *cb) {
    double A = 0; P2 v[10];
    for (int i = 0; i < cb->numVerts; i++) v[i] = gno(c, cb->verts[i]);
    for (int i = 0; i < cb->numVerts; i++) {
        P2 a = v[i], b = v[(i + 1) % cb->numVerts];
        double ra = hypot(a.x, a.y), rb = hypot(b.x, b.y);
        double ta = ra / (1 + sqrt(1 + ra * ra)), tb = rb / (1 + sqrt(1 + rb * rb));
        double sinC = (a.x * b.y - a.y * b.x) / (ra * rb), cosC = (a.x * b.x + a.y * b.y) / (ra * rb);
        A += 2 * atan2(ta * tb * sinC, 1 + ta * tb * cosC);
    }
    return A;
}

static int geoNbrs(uint64_t h, uint64_t *out) {
    int res = resOf(h), n = 0;
    LatLng c; cellToLatLng(h, &c); CellBoundary cb; cellToBoundary(h, &cb);
    P2 v[10]; double maxseg = 0;
    for (int i = 0; i < cb.numVerts; i++) v[i] = gno(c, cb.verts[i]);
    for (int i = 0; i < cb.numVerts; i++) { P2 a = v[i], b = v[(i + 1) % cb.numVerts]; double l = hypot(a.x - b.x, a.y - b.y); if (l > maxseg) maxseg = l; }
    for (int i = 0; i < cb.numVerts; i++) {
        P2 a = v[i], b = v[(i + 1) % cb.numVerts]; if (hypot(a.x - b.x, a.y - b.y) < 0.05 * maxseg) continue;
        P2 m = {(a.x + b.x) / 2 * 1.05, (a.y + b.y) / 2 * 1.05};
        // inverse gnomonic
        double rho = hypot(m.x, m.y), cc = atan(rho); LatLng p;
        p.lat = asin(cos(cc) * sin(c.lat) + m.y * sin(cc) * cos(c.lat) / rho);
        p.lng = c.lng + atan2(m.x * sin(cc), rho * cos(c.lat) * cos(cc) - m.y * sin(c.lat) * sin(cc));
        if (p.lng > M_PI) p.lng -= 2 * M_PI; if (p.lng < -M_PI) p.lng += 2 * M_PI;
        uint64_t nb; latLngToCell(&p, res, &nb);
        if (nb == h) { printf("probe in self %llx\n", (unsigned long long)h); continue; }
        int f = 0; for (int k = 0; k < n; k++) if (out[k] == nb) f = 1;
        if (!f) out[n++] = nb;
    }
    return n;
}
static double maxShare, maxRel, maxEdgeB, maxVtx; static long badShare, edgeBad, vtxBad, ncell, nbrMis;
static void one(uint64_t h) {
    int res = resOf(h); ncell++;
    uint64_t nbs[8]; int deg = geoNbrs(h, nbs);
    uint64_t ring[7] = {0}; gridDisk(h, 1, ring); int nl = 0, mis = 0;
    for (int i = 0; i < 7; i++) if (ring[i] && ring[i] != h) { nl++; int f = 0; for (int k = 0; k < deg; k++) if (nbs[k] == ring[i]) f = 1; if (!f) mis = 1; }
    if (nl != deg || deg != (isPentagon(h) ? 5 : 6)) mis = 1;
    if (mis) { nbrMis++; if (nbrMis < 5) printf("nbr mismatch %llx deg %d nl %d\n", (unsigned long long)h, deg, nl); }
    LatLng c; cellToLatLng(h, &c); CellBoundary cb; cellToBoundary(h, &cb);
    double a; cellAreaRads2(h, &a); double ar = fanArea(c, &cb); double rel = fabs(a - ar) / ar; if (rel > maxRel) maxRel = rel;
    double edge = adist(cb.verts[0], cb.verts[1]);
    int topo[10] = {0};
    for (int k = 0; k < deg; k++) {
        uint64_t nb = nbs[k]; CellBoundary nbB; cellToBoundary(nb, &nbB);
        int match[10], cnt = 0;
        for (int i = 0; i < cb.numVerts; i++) { match[i] = -1; for (int j = 0; j < nbB.numVerts; j++) { double d = adist(cb.verts[i], nbB.verts[j]); if (d < 1e-3 * edge) { match[i] = j; if (d > maxShare) maxShare = d; } } if (match[i] >= 0) { cnt++; topo[i]++; } }
        if (cnt < 2 || cnt > 3) { badShare++; if (badShare < 5) printf("share cnt %d %llx %llx\n", cnt, (unsigned long long)h, (unsigned long long)nb); continue; }
        int start = -1; for (int i = 0; i < cb.numVerts; i++) if (match[i] >= 0 && match[(i + cb.numVerts - 1) % cb.numVerts] < 0) start = i;
        uint64_t e, o, d2; if (cellsToDirectedEdge(h, nb, &e) || !isValidDirectedEdge(e) || getDirectedEdgeOrigin(e, &o) || getDirectedEdgeDestination(e, &d2) || o != h || d2 != nb) { edgeBad++; continue; }
        CellBoundary eb; directedEdgeToBoundary(e, &eb);
        if (eb.numVerts != cnt) { edgeBad++; if (edgeBad < 5) printf("edge nverts %d vs %d %llx->%llx\n", eb.numVerts, cnt, (unsigned long long)h, (unsigned long long)nb); }
        else for (int t = 0; t < cnt; t++) { double d = adist(eb.verts[t], cb.verts[(start + t) % cb.numVerts]); if (d > maxEdgeB) maxEdgeB = d; }
    }
    uint64_t vs[6]; cellToVertexes(h, vs); int ti = 0;
    for (int i = 0; i < cb.numVerts; i++) if (topo[i] == 2) { if (ti >= 6 || !vs[ti]) { vtxBad++; break; } LatLng vl; vertexToLatLng(vs[ti], &vl); double d = adist(vl, cb.verts[i]); if (d > maxVtx) maxVtx = d; if (!isValidVertex(vs[ti])) vtxBad++; ti++; }
      else if (topo[i] != 1) { vtxBad++; if (vtxBad < 5) printf("topo %d at %llx v%d nv=%d\n", topo[i], (unsigned long long)h, i, cb.numVerts); }
    if (ti != (isPentagon(h) ? 5 : 6)) vtxBad++;
}
int main(int argc, char **argv) {
    int r = atoi(argv[1]); clock_t t0 = clock(); int d[15];
    for (int bc = 0; bc < 122; bc++) {
        if (!(is_pent_bc(bc) || bc % 5 == 0)) continue;
        for (int a = 0; a < 7; a++) for (int b = 0; b < 7; b++) for (int c2 = 0; c2 < 7; c2 += 3) for (int i = 0; i <= r; i += (r > 6 ? 3 : 1)) {
            for (int j = 0; j < r; j++) d[j] = j < i ? a : (j < r - 1 ? b : c2);
            uint64_t h = mk(r, bc, d); if (!spec_valid(h)) continue; one(h);
        }
    }
    printf("res %d cells %ld nbrMis %ld maxRelArea %.3g maxShare %.3g badShare %ld edgeBad %ld maxEdgeB %.3g vtxBad %ld maxVtx %.3g %.1fs\n", r, ncell, nbrMis, maxRel, maxShare, badShare, edgeBad, maxEdgeB, vtxBad, maxVtx, (double)(clock() - t0) / CLOCKS_PER_SEC);
}
