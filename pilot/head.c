__attribute__((section("h3data"), aligned(4096))) char h3data_head[4096] = {1};
__attribute__((section("h3bss"), aligned(4096))) char h3bss_head[4096];
