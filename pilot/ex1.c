#include "common.h"
#include <time.h>
// Experiment: geometric neighbour graph (boundary -> outward probe -> latLngToCell) vs gridDisk k=1
static long ncells, nmismatch, nrt;
static int cmp64(const void *a, const void *b) {
    uint64_t x = *(uint64_t *)a, y = *(uint64_t *)b;
    return x < y ? -1 : x > y;
}
static void cb(uint64_t h, void *u) {
    ncells++;
    LatLng c;
    if (cellToLatLng(h, &c)) { printf("cellToLatLng fail %llx\n", (unsigned long long)h); return; }
    uint64_t back;
    latLngToCell(&c, resOf(h), &back);
    if (back != h) { nrt++; if (nrt < 10) printf("roundtrip %llx -> %llx\n", (unsigned long long)h, (unsigned long long)back); }
    CellBoundary cb;
    cellToBoundary(h, &cb);
    V3 cv = tov3(c);
    uint64_t geo[12]; int ng = 0;
    double maxseg = 0;
    V3 bv[10];
    for (int i = 0; i < cb.numVerts; i++) bv[i] = tov3(cb.verts[i]);
    for (int i = 0; i < cb.numVerts; i++) { double l = ang(bv[i], bv[(i + 1) % cb.numVerts]); if (l > maxseg) maxseg = l; }
    for (int i = 0; i < cb.numVerts; i++) {
        V3 a = bv[i], b = bv[(i + 1) % cb.numVerts];
        double l = ang(a, b);
        if (l < 0.05 * maxseg) continue;
        V3 m = nrm(add(a, b));
        V3 out = nrm(add(m, scl(sub(m, cv), 0.05)));
        LatLng p = togeo(out);
        uint64_t n;
        if (latLngToCell(&p, resOf(h), &n)) { printf("l2c fail\n"); continue; }
        if (n == h) { printf("probe landed in self %llx seg %d\n", (unsigned long long)h, i); continue; }
        int f = 0;
        for (int k = 0; k < ng; k++) if (geo[k] == n) f = 1;
        if (!f) geo[ng++] = n;
    }
    uint64_t ring[7] = {0};
    gridDisk(h, 1, ring);
    uint64_t lib[7]; int nl = 0;
    for (int i = 0; i < 7; i++) if (ring[i] && ring[i] != h) lib[nl++] = ring[i];
    qsort(geo, ng, 8, cmp64); qsort(lib, nl, 8, cmp64);
    int bad = ng != nl;
    for (int i = 0; !bad && i < ng; i++) if (geo[i] != lib[i]) bad = 1;
    int expect = isPentagon(h) ? 5 : 6;
    if (nl != expect) bad = 1;
    if (bad) { nmismatch++; if (nmismatch < 10) printf("mismatch %llx ng=%d nl=%d nv=%d\n", (unsigned long long)h, ng, nl, cb.numVerts); }
}
int main(int argc, char **argv) {
    int rmax = argc > 1 ? atoi(argv[1]) : 3;
    for (int r = 0; r <= rmax; r++) {
        ncells = nmismatch = nrt = 0;
        clock_t t0 = clock();
        enum_res(r, cb, 0);
        int64_t nc; getNumCells(r, &nc);
        printf("res %d cells %ld (getNumCells %lld) roundtrip-fail %ld nbr-mismatch %ld  %.2fs\n", r, ncells, (long long)nc, nrt, nmismatch, (double)(clock() - t0) / CLOCKS_PER_SEC);
    }
}
