#include "graph.h"
int main(){
  int res=2; double edge; getHexagonEdgeLengthAvgKm(res,&edge); double u=edge/6371.007180918475;
  uint64_t pents[12]; getPentagons(res,pents); LatLng c; cellToLatLng(pents[6],&c);
  static const double T[4][2]={{-6.1, -0.13}, {6.3, -0.21}, {6.2, 0.17}, {-6.25, 0.22}};
  double sc=2.7*u; LatLng v[4];
  for(int i=0;i<4;i++){v[i].lat=c.lat+T[i][1]*sc; v[i].lng=c.lng+T[i][0]*sc/cos(c.lat);} 
  printf("center %.6f %.6f u=%.5f\n",c.lat,c.lng,u);
  for(int i=0;i<4;i++)printf("v%d %.6f %.6f\n",i,v[i].lat,v[i].lng);
  GeoPolygon gp={.geoloop={4,v},.numHoles=0};
  int64_t sz; maxPolygonToCellsSize(&gp,res,0,&sz); printf("sz %lld\n",(long long)sz);
  uint64_t*out=calloc(sz,8); H3Error e=polygonToCells(&gp,res,0,out); printf("err %d\n",e);
  for(int i=0;i<sz;i++) if(out[i]){LatLng g; cellToLatLng(out[i],&g); printf(" out %llx %.6f %.6f\n",(unsigned long long)out[i],g.lat,g.lng);} 
  int64_t sz2; maxPolygonToCellsSizeExperimental(&gp,res,0,&sz2); uint64_t*o2=calloc(sz2,8); polygonToCellsExperimental(&gp,res,0,sz2,o2);
  for(int i=0;i<sz2;i++) if(o2[i]){LatLng g; cellToLatLng(o2[i],&g); printf(" exp %llx %.6f %.6f\n",(unsigned long long)o2[i],g.lat,g.lng);} 
}
