#include "common.h"
int main(){
  LatLng p={-1.3077479791619311,-0.60464751589997145};
  uint64_t h; latLngToCell(&p,15,&h);
  printf("cell %llx bc %d\n",(unsigned long long)h,bcOf(h));
  uint64_t ring[7]={0}; gridDisk(h,1,ring);
  for(int k=0;k<7;k++){ uint64_t c=ring[k]; if(!c)continue; LatLng g; cellToLatLng(c,&g); CellBoundary cb; cellToBoundary(c,&cb);
    printf("%llx center %.17g %.17g  dlat %.6g dlng %.6g\n",(unsigned long long)c,g.lat,g.lng,g.lat-p.lat,g.lng-p.lng);
    for(int i=0;i<cb.numVerts;i++) printf("    v%d %.17g %.17g   (d %.6g %.6g)\n",i,cb.verts[i].lat,cb.verts[i].lng,cb.verts[i].lat-p.lat,(cb.verts[i].lng-p.lng)*cos(p.lat));
  }
}
