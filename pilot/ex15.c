#include "common.h"
static int failAt = 0, nalloc = 0, live = 0;
void *vf_malloc(size_t n) { nalloc++; if (failAt && nalloc == failAt) return NULL; live++; return malloc(n); }
void *vf_calloc(size_t a, size_t b) { nalloc++; if (failAt && nalloc == failAt) return NULL; live++; return calloc(a, b); }
void *vf_realloc(void *p, size_t n) { return realloc(p, n); }
void vf_free(void *p) { if (p) live--; free(p); }
int main() {
    int d[15] = {0}; uint64_t pent = mk(5, 4, d);
    uint64_t ring[7] = {0}; gridDisk(pent, 1, ring);
    printf("allocs for gridDisk(pent,1): %d live %d\n", nalloc, live);
    for (int i = 0; i < 7; i++) if (ring[i] && ring[i] != pent) {
        nalloc = 0; failAt = 0; int out = -1; H3Error e = areNeighborCells(pent, ring[i], &out); int a0 = nalloc;
        nalloc = 0; failAt = 1; int out2 = -1; H3Error e2 = areNeighborCells(pent, ring[i], &out2);
        printf("nbr %llx: normal e=%d out=%d allocs=%d | fail@1 e=%d out=%d live=%d\n", (unsigned long long)ring[i], e, out, a0, e2, out2, live);
    }
    LatLng c; cellToLatLng(pent, &c); double u = 0.003;
    LatLng v[4] = {{c.lat - u, c.lng - u}, {c.lat - u, c.lng + u}, {c.lat + u, c.lng + u}, {c.lat + u, c.lng - u}};
    GeoPolygon gp = {.geoloop = {4, v}, .numHoles = 0}; int64_t sz; failAt = 0; maxPolygonToCellsSize(&gp, 5, 0, &sz);
    uint64_t *o = calloc(sz, 8); nalloc = 0; H3Error e = polygonToCells(&gp, 5, 0, o); int total = nalloc; int cnt = 0; for (int i = 0; i < sz; i++) if (o[i]) cnt++;
    printf("polygonToCells normal e=%d cells=%d allocs=%d live=%d\n", e, cnt, total, live);
    for (int k = 1; k <= total; k++) { memset(o, 0, sz * 8); nalloc = 0; failAt = k; e = polygonToCells(&gp, 5, 0, o); cnt = 0; for (int i = 0; i < sz; i++) if (o[i]) cnt++; printf("  fail@%d e=%d cells=%d live=%d\n", k, e, cnt, live); }
}
