#include "graph.h"
#include <time.h>
// Pilot for C16: cellsToLinkedMultiPolygon on disks with removed cells, all resolutions
typedef struct { double x, y; } P2;
static P2 gno(LatLng c0, LatLng p) {
    double dlat = p.lat - c0.lat, dlng = p.lng - c0.lng;
    if (dlng > M_PI) dlng -= 2 * M_PI; if (dlng < -M_PI) dlng += 2 * M_PI;
    double s2 = sin(dlng / 2); s2 *= s2;
    double cosc = cos(dlat) - 2 * cos(c0.lat) * cos(p.lat) * s2;
    P2 r; r.x = cos(p.lat) * sin(dlng) / cosc; r.y = (sin(dlat) + 2 * sin(c0.lat) * cos(p.lat) * s2) / cosc; return r;
}
// signed spherical area of loop (CCW positive) via fan from c0 in gnomonic chart
static double loopArea(LatLng c0, LatLng *v, int n) {
    double A = 0;
    for (int i = 0; i < n; i++) {
        P2 a = gno(c0, v[i]), b = gno(c0, v[(i + 1) % n]);
        double ra = hypot(a.x, a.y), rb = hypot(b.x, b.y);
        if (ra == 0 || rb == 0) continue;
        double ta = ra / (1 + sqrt(1 + ra * ra)), tb = rb / (1 + sqrt(1 + rb * rb));
        double sinC = (a.x * b.y - a.y * b.x) / (ra * rb), cosC = (a.x * b.x + a.y * b.y) / (ra * rb);
        A += 2 * atan2(ta * tb * sinC, 1 + ta * tb * cosC);
    }
    return A;
}
static long nsets, nerr, nbadArea, nbadComp, nbadLoop, nbadWind;
static double maxRel;
static void runSet(uint64_t *cells, int n, LatLng c0, const char *tag) {
    nsets++;
    LinkedGeoPolygon out;
    H3Error e = cellsToLinkedMultiPolygon(cells, n, &out);
    if (e) { nerr++; if (nerr < 10) printf("%s ERR %d n=%d res %d first %llx\n", tag, e, n, resOf(cells[0]), (unsigned long long)cells[0]); return; }
    double cellA = 0; for (int i = 0; i < n; i++) { double a; cellAreaRads2(cells[i], &a); cellA += a; }
    // components via neighbor relation (areNeighborCells – pilot only)
    int *comp = malloc(n * sizeof(int)); for (int i = 0; i < n; i++) comp[i] = i;
    for (int i = 0; i < n; i++) for (int j = i + 1; j < n; j++) { int nb = 0; areNeighborCells(cells[i], cells[j], &nb); if (nb) { int a = comp[i], b = comp[j]; if (a != b) for (int k = 0; k < n; k++) if (comp[k] == b) comp[k] = a; } }
    int ncomp = 0; for (int i = 0; i < n; i++) if (comp[i] == i) ncomp++;
    free(comp);
    int npoly = 0; double polyA = 0; int badLoop = 0, badWind = 0;
    for (LinkedGeoPolygon *p = &out; p; p = p->next) {
        if (!p->first) continue;
        npoly++; int li = 0;
        for (LinkedGeoLoop *l = p->first; l; l = l->next, li++) {
            LatLng v[4096]; int nv = 0; for (LinkedLatLng *q = l->first; q && nv < 4096; q = q->next) v[nv++] = q->vertex;
            if (nv < 3) badLoop++;
            double a = loopArea(c0, v, nv);
            if (li == 0 && a <= 0) badWind++;
            if (li > 0 && a >= 0) badWind++;
            polyA += a;
        }
    }
    double rel = fabs(polyA - cellA) / cellA; if (rel > maxRel) maxRel = rel;
    if (rel > 1e-9) { nbadArea++; if (nbadArea < 10) printf("%s AREA rel %.3g n=%d res %d first %llx npoly %d ncomp %d\n", tag, rel, n, resOf(cells[0]), (unsigned long long)cells[0], npoly, ncomp); }
    if (npoly != ncomp) { nbadComp++; if (nbadComp < 10) printf("%s COMP npoly %d ncomp %d n=%d res %d first %llx\n", tag, npoly, ncomp, n, resOf(cells[0]), (unsigned long long)cells[0]); }
    if (badLoop) nbadLoop++; if (badWind) { nbadWind++; if (nbadWind < 10) printf("%s WIND n=%d res %d first %llx\n", tag, n, resOf(cells[0]), (unsigned long long)cells[0]); }
    destroyLinkedMultiPolygon(&out);
}
int main(int argc, char **argv) {
    int res = atoi(argv[1]); clock_t t0 = clock();
    int d[15];
    for (int bc = 0; bc < 122; bc++) {
        if (!(is_pent_bc(bc) || bc % 9 == 0)) continue;
        for (int a = 0; a < 7; a += 1) for (int b = 0; b < 7; b += 2) {
            for (int j = 0; j < res; j++) d[j] = j < res / 2 ? a : b;
            uint64_t h = mk(res, bc, d); if (!spec_valid(h)) continue;
            LatLng c0; cellToLatLng(h, &c0);
            if (fabs(c0.lat) > 1.2) continue;
            for (int k = 0; k <= 3; k++) {
                if (res == 0 && k > 1) continue; if (res == 1 && k > 2) continue;
                int64_t sz; maxGridDiskSize(k, &sz); uint64_t disk[64] = {0}; int dist[64] = {0}; gridDiskDistances(h, k, disk, dist);
                uint64_t set[64]; int n;
                char tag[64];
                // pattern 0: full disk; 1: remove centre (hole); 2: ring k only + centre (island in hole) ; 3: every other cell by index parity
                for (int pat = 0; pat < 4; pat++) {
                    n = 0;
                    for (int i = 0; i < sz; i++) if (disk[i]) {
                        int keep = 1;
                        if (pat == 1 && dist[i] == 0) keep = 0;
                        if (pat == 2 && !(dist[i] == k || dist[i] == 0 || k < 2)) keep = 0; if (pat == 2 && k >= 2 && dist[i] == 1) keep = 0;
                        if (pat == 3 && ((disk[i] >> (3 * (15 - res))) & 1)) keep = 0;
                        if (keep) set[n++] = disk[i];
                    }
                    if (!n) continue; if (pat && k == 0) continue;
                    snprintf(tag, sizeof tag, "bc%d a%d b%d k%d p%d", bc, a, b, k, pat);
                    runSet(set, n, c0, tag);
                }
            }
        }
    }
    printf("res %d sets %ld err %ld badArea %ld badComp %ld badLoop %ld badWind %ld maxRel %.3g %.1fs\n", res, nsets, nerr, nbadArea, nbadComp, nbadLoop, nbadWind, maxRel, (double)(clock() - t0) / CLOCKS_PER_SEC);
}
