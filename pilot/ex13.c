#include "common.h"
extern const LatLng faceCenterGeo[20];
static V3 fc[20];
static long n, bad, cnt1, cnt2, cnt5, must0;
// classify point: returns nearest face and sets margin = (second best angle - best angle)
static int nearest(V3 p, double *margin) { int b = -1; double bd = 9, sd = 9; for (int f = 0; f < 20; f++) { double d = ang(p, fc[f]); if (d < bd) { sd = bd; bd = d; b = f; } else if (d < sd) sd = d; } *margin = sd - bd; return b; }
static void one(uint64_t h, void *u) {
    n++;
    int fcnt; maxFaceCount(h, &fcnt); int out[5]; H3Error e = getIcosahedronFaces(h, out);
    if (e) { bad++; printf("err %d %llx\n", e, (unsigned long long)h); return; }
    unsigned lib = 0; int nl = 0; for (int i = 0; i < fcnt; i++) if (out[i] >= 0) { if (out[i] > 19 || (lib >> out[i] & 1)) { bad++; printf("dup/inv %llx\n", (unsigned long long)h); } lib |= 1u << out[i]; nl++; }
    LatLng c; cellToLatLng(h, &c); CellBoundary cb; cellToBoundary(h, &cb); V3 cv = tov3(c);
    double R = ang(cv, tov3(cb.verts[0]));
    unsigned must = 0, may = 0; double mg;
    // interior samples: along centre->vertex and centre->edge midpoint at fractions
    static const double fr[] = {0.999, 0.9, 0.5, 0.1};
    for (int i = 0; i < cb.numVerts; i++) {
        V3 a = tov3(cb.verts[i]), b = tov3(cb.verts[(i + 1) % cb.numVerts]); V3 m = nrm(add(a, b));
        V3 pts[2] = {a, m};
        for (int k = 0; k < 2; k++) for (unsigned t = 0; t < 4; t++) { V3 p = nrm(add(scl(cv, 1 - fr[t]), scl(pts[k], fr[t]))); int f = nearest(p, &mg); if (mg > 1e-3 * R * (1 - fr[t]) + 1e-12) must |= 1u << f; }
        // closed cell points for MAY: any face within margin tolerance
        for (int k = 0; k < 2; k++) { for (int f = 0; f < 20; f++) { double mm; int nf = nearest(pts[k], &mm); double d = ang(pts[k], fc[f]) - ang(pts[k], fc[nf]); if (d < 1e-9 + 1e-6 * R) may |= 1u << f; } }
    }
    { int f = nearest(cv, &mg); if (mg > 1e-9) must |= 1u << f; for (int f2 = 0; f2 < 20; f2++) if (ang(cv, fc[f2]) - ang(cv, fc[f]) < 1e-9 + 1e-6 * R) may |= 1u << f2; }
    may |= must;
    if ((must & ~lib) || (lib & ~may)) { bad++; if (bad < 20) printf("MISMATCH %llx lib %x must %x may %x nv %d\n", (unsigned long long)h, lib, must, may, cb.numVerts); }
    if (isPentagon(h) ? nl != 5 : (nl < 1 || nl > 2)) { bad++; printf("count %d %llx\n", nl, (unsigned long long)h); }
    if (nl == 1) cnt1++; if (nl == 2) cnt2++; if (nl == 5) cnt5++;
}
int main(int argc, char **argv) {
    for (int f = 0; f < 20; f++) fc[f] = tov3(faceCenterGeo[f]);
    int r = atoi(argv[1]); int full = atoi(argv[2]);
    if (full) enum_res(r, one, 0);
    else { int d[15]; for (int bc = 0; bc < 122; bc++) for (int a = 0; a < 7; a++) for (int b = 0; b < 7; b++) for (int c2 = 0; c2 < 7; c2++) for (int i = 0; i <= r; i += 2) { for (int j = 0; j < r; j++) d[j] = j < i ? a : (j < r - 1 ? b : c2); uint64_t h = mk(r, bc, d); if (spec_valid(h)) one(h, 0); } }
    printf("res %d n %ld bad %ld faces1 %ld faces2 %ld faces5 %ld\n", r, n, bad, cnt1, cnt2, cnt5);
}
