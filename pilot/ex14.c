#include "common.h"
#include <assert.h>
static int cmpu(const void *a, const void *b) { uint64_t x = *(uint64_t *)a, y = *(uint64_t *)b; return x < y ? -1 : x > y; }
// reference compaction: sort; repeat: group by parent; replace complete groups
static uint64_t parentOf(uint64_t h) { int r = resOf(h); uint64_t p = h | (7ULL << (3 * (15 - r))); p = (p & ~(15ULL << 52)) | ((uint64_t)(r - 1) << 52); return p; }
static int nchildren(uint64_t p) { int first = 0; for (int r = 1; r <= resOf(p); r++) if (dig(p, r)) { first = 1; break; } return (is_pent_bc(bcOf(p)) && !first) ? 6 : 7; }
static int refCompact(uint64_t *in, int n, uint64_t *out) {
    uint64_t *cur = malloc(n * 8 + 8); memcpy(cur, in, n * 8); int no = 0;
    while (n) {
        qsort(cur, n, 8, cmpu);
        // group by parent among same (max) resolution only: process finest resolution first
        int maxr = 0; for (int i = 0; i < n; i++) if (resOf(cur[i]) > maxr) maxr = resOf(cur[i]);
        uint64_t *next = malloc(n * 8 + 8); int nn = 0;
        for (int i = 0; i < n;) {
            if (resOf(cur[i]) != maxr || maxr == 0) { out[no++] = cur[i]; i++; continue; }
            uint64_t p = parentOf(cur[i]); int j = i; while (j < n && resOf(cur[j]) == maxr && parentOf(cur[j]) == p) j++;
            if (j - i == nchildren(p)) next[nn++] = p; else for (int k = i; k < j; k++) out[no++] = cur[k];
            i = j;
        }
        free(cur); cur = next; n = nn;
        // remaining coarser cells of the same level continue compaction
    }
    free(cur); qsort(out, no, 8, cmpu); return no;
}
static long runs, bad;
static void check(uint64_t *set, int n, int res) {
    runs++;
    uint64_t *out = calloc(n + 1, 8); out[n] = 0x5555;
    H3Error e = compactCells(set, out, n);
    uint64_t ref[4096]; int nr = refCompact(set, n, ref);
    int no = 0; for (int i = 0; i < n; i++) if (out[i]) out[no++] = out[i];
    qsort(out, no, 8, cmpu);
    int b = e != 0 || no != nr || out[n] != 0x5555; for (int i = 0; !b && i < nr; i++) if (out[i] != ref[i]) b = 1;
    if (!b) { int64_t us; uncompactCellsSize(out, no, res, &us); if (us != n) b = 1; uint64_t *un = calloc(n + 1, 8); un[n] = 0x7777; if (uncompactCells(out, no, un, n, res) || un[n] != 0x7777) b = 1; qsort(un, n, 8, cmpu); uint64_t *s2 = malloc(n * 8); memcpy(s2, set, n * 8); qsort(s2, n, 8, cmpu); if (memcmp(un, s2, n * 8)) b = 1; if (n > 0 && uncompactCells(out, no, un, n - 1, res) != 14) b = 1; free(un); free(s2); }
    if (b) { bad++; if (bad < 10) { printf("BAD e=%d n=%d no=%d nr=%d:", e, n, no, nr); for (int i = 0; i < n && i < 12; i++) printf(" %llx", (unsigned long long)set[i]); printf("\n"); } }
    free(out);
}
static void perms(uint64_t *a, int n, int k, int res) { if (k == n) { check(a, n, res); return; } for (int i = k; i < n; i++) { uint64_t t = a[k]; a[k] = a[i]; a[i] = t; perms(a, n, k + 1, res); t = a[k]; a[k] = a[i]; a[i] = t; } }
int main() {
    int d[15] = {0};
    // all subsets x all permutations of children of a hexagon / a pentagon at several resolutions
    for (int res = 1; res <= 15; res += 7) for (int bcI = 0; bcI < 3; bcI++) {
        int bc = (int[]){20, 4, 121}[bcI]; for (int j = 0; j < 15; j++) d[j] = (bcI == 2) ? 3 : 0;
        uint64_t kids[7]; int nk = 0;
        for (int c = 0; c < 7; c++) { d[res - 1] = c; uint64_t h = mk(res, bc, d); if (spec_valid(h)) kids[nk++] = h; }
        for (int mask = 1; mask < (1 << nk); mask++) { uint64_t s[7]; int n = 0; for (int i = 0; i < nk; i++) if (mask >> i & 1) s[n++] = kids[i]; perms(s, n, 0, res); }
    }
    printf("single-level: runs %ld bad %ld\n", runs, bad);
    // two-level: per child state in {empty, single(0), single(6), missing-one, full}; 5^7 combos (hexagon) with 6 orderings
    for (int bcI = 0; bcI < 2; bcI++) { int bc = bcI ? 4 : 20; int res = 5; for (int j = 0; j < 15; j++) d[j] = 0;
        long combos = 1; int nc = bcI ? 6 : 7; for (int i = 0; i < nc; i++) combos *= 5;
        for (long cmb = 0; cmb < combos; cmb++) {
            uint64_t s[64]; int n = 0; long t = cmb; int ci = 0;
            for (int c = 0; c < 7; c++) { d[res - 2] = c; d[res - 1] = 0; if (!spec_valid(mk(res, bc, d))) continue; int st = t % 5; t /= 5; ci++;
                for (int g = 0; g < 7; g++) { d[res - 1] = g; uint64_t h = mk(res, bc, d); if (!spec_valid(h)) continue; int keep = st == 4 || (st == 1 && g == 0) || (st == 2 && g == 6) || (st == 3 && g != 3); if (keep) s[n++] = h; } }
            if (!n) continue;
            check(s, n, res);                                   // ascending
            for (int i = 0; i < n / 2; i++) { uint64_t x = s[i]; s[i] = s[n - 1 - i]; s[n - 1 - i] = x; } check(s, n, res);  // descending
            for (int rot = 1; rot < n; rot += (n > 8 ? n / 4 : 1)) { uint64_t r2[64]; for (int i = 0; i < n; i++) r2[i] = s[(i + rot) % n]; check(r2, n, res); }
            { uint64_t r2[64]; int k = 0; for (int i = 0; i < n; i += 2) r2[k++] = s[i]; for (int i = 1; i < n; i += 2) r2[k++] = s[i]; check(r2, n, res); }
        }
    }
    printf("total runs %ld bad %ld\n", runs, bad);
}
