// BUILD: script=c18.sh
// C18 -- the library is re-entrant: concurrent calls equal sequential calls; no library-owned memory is written.
// One source, three binaries (mk/c18.sh):
//   -DC18_TRAP   write-trap build: the library's .data/.bss are renamed, page-bracketed and mprotect(PROT_READ)-ed;
//                every workload of a broad product is executed; a write into library-owned storage is a SIGSEGV -> violation.
//   -DC18_SCHED  library compiled with -finstrument-functions: every library function entry and every allocator call is a
//                scheduling point of a cooperative scheduler; stateless DFS over all schedules with <= B preemptions of
//                every pair (and core triples) of a call alphabet; plus the sequential history-independence pass.
//   -DC18_TSAN   free-running threads under ThreadSanitizer (supporting pass).
#include "mc.h"
#include "dom.h"
#include "poly.h"
#if defined(C18_TSAN)
#define LEDGER_MT
#endif
#define LEDGER_TLS
#include "ledger.h"
#include <pthread.h>
#include <semaphore.h>

const char *MC_PROPERTY = "C18";
#if defined(C18_TRAP)
const char *MC_RULE =
    "write-trap part: the library objects are linked into one relocatable object whose .data and .bss sections are renamed (h3data/h3bss), "
    "bracketed by page-sized pads and mprotect(PROT_READ)-ed before any workload runs; a SIGSEGV whose address lies inside is a write to "
    "library-owned static storage = violation keyed by the workload case. Workloads (each calls every exported function of its group and "
    "serialises all results): geom/hier/edge/vert/misc(h) over FINE(r) at all 16 resolutions and the hostile IDX alphabet; disk(h,k) all "
    "seven gridDisk-family functions; pair(a,b) areNeighborCells/cellsToDirectedEdge/gridDistance/gridPath*/localIj; point x DBLS^2 x res; "
    "res(r) over INTS; compact(root,depth,kind); poly(shape,anchor,scale,res) legacy + 4 containment modes + bad flags; multi(h,k,pattern) "
    "cellsToLinkedMultiPolygon + destroy. Non-trivial: a workload in which at least one call allocated or took a pentagon path.";
#elif defined(C18_SCHED)
const char *MC_RULE =
    "schedule part: the library is compiled with -finstrument-functions; every library function entry and every vf_malloc/calloc/free is a "
    "scheduling point. Threads run under a cooperative scheduler (one runs at a time, semaphore hand-off). pairs(i,j,B): stateless DFS over "
    "ALL schedules with at most B preemptions (a switch away from a runnable thread costs 1; switches at thread exit are free) of thread 0 "
    "running call i and thread 1 running call j of the call alphabet, every execution run to completion; triple(i,j,k,B) likewise on three "
    "threads over a core alphabet; pairf: additionally one allocation of one thread fails. Oracle per execution: each thread's serialised "
    "outputs are byte-identical to the sequential reference of the same call (with the same injected fault), the allocator ledger is empty, "
    "no double/foreign free; a divergence while replaying a prefix is a hard error. history part: for every ordered pair (p,q) of the "
    "alphabet, q executed after p (heap and stack pre-poisoned with two different patterns) is byte-identical to q executed first in a "
    "fresh process. Non-trivial: an exploration in which both threads passed at least 2 scheduling points while the other was runnable.";
#else
const char *MC_RULE =
    "supporting pass (not deciding): the thread bodies of the schedule part run free on N in {2,4,16} real threads in a clang "
    "-fsanitize=thread build (ledger allocator under a mutex); a ThreadSanitizer report (exit code 66) or an output that differs from the "
    "sequential reference is a violation. free(N,rot,rep): thread t executes the alphabet rotated by rot+t. Non-trivial: every case.";
#endif
const char *MC_ASSUME[] = {
    "glibc malloc/free, libm and sprintf/sscanf are thread-safe (the library's undefined symbols are checked against an allow-list of re-entrant functions by mk/c18.sh)",
    "the write trap observes static storage of the library objects only (.data/.bss incl. function-local statics); thread-local storage would be legitimate",
    "schedule part: preemption is explored at function-entry and allocator granularity; the trap part justifies this reduction (no library-owned byte is ever written between points)",
    NULL};
const char *MC_CTR_NAMES[] = {"api_workloads", "schedules_explored", "schedules_0_preemptions", "schedules_1_preemption", "schedules_2_preemptions",
                              "choice_points_total", "max_points_per_execution", "history_pairs", "alloc_calls_seen", "fault_schedules", "distinct_outcomes",
                              "divergences", "horizon_hits", "tsan_threads_run", NULL};
const char *MC_MAX_NAMES[] = {"choice_points_in_one_execution", "schedules_for_one_program", NULL};

// ------------------------------------------------------------------------------------------------ output buffers
typedef struct {
    uint8_t *b;
    size_t cap, len;
    int overflow;
} Out;
static void o_init(Out *o, size_t cap) {
    o->b = malloc(cap);
    o->cap = cap;
    o->len = 0;
    o->overflow = 0;
}
static inline void o_put(Out *o, const void *p, size_t n) {
    if (o->len + n > o->cap) {
        o->overflow = 1;
        return;
    }
    memcpy(o->b + o->len, p, n);
    o->len += n;
}
#define O(o, x)                        \
    do {                               \
        __typeof__(x) v__ = (x);       \
        o_put((o), &v__, sizeof v__);  \
    } while (0)
static void o_ll(Out *o, const LatLng *g) {
    O(o, g->lat);
    O(o, g->lng);
}
static void o_cb(Out *o, const CellBoundary *cb) {
    O(o, cb->numVerts);
    for (int i = 0; i < cb->numVerts && i < MAX_CELL_BNDRY_VERTS; i++) o_ll(o, &cb->verts[i]);
}

// ------------------------------------------------------------------------------------------------ workloads
enum { K_GEOM, K_HIER, K_EDGE, K_VERT, K_MISC, K_DISK, K_PAIR, K_POINT, K_RES, K_COMPACT, K_POLY, K_MULTI, K_NKINDS };
static const char *KNAME[] = {"geom", "hier", "edge", "vert", "misc", "disk", "pair", "point", "res", "compact", "poly", "multi"};
typedef struct {
    int kind;
    uint64_t h, h2;
    int k, res;
    double lat, lng;
    uint64_t *set;
    int64_t nset;
    Poly *poly;
    char name[96];
} Prep;

static void ex_geom(uint64_t h, Out *o) {
    LatLng g = {0, 0};
    CellBoundary cb;
    double d = 0;
    H3Error e;
    e = cellToLatLng(h, &g);
    O(o, e);
    if (!e) o_ll(o, &g);
    e = cellToBoundary(h, &cb);
    O(o, e);
    if (!e) o_cb(o, &cb);
    e = cellAreaRads2(h, &d);
    O(o, e);
    if (!e) O(o, d);
    e = cellAreaKm2(h, &d);
    O(o, e);
    if (!e) O(o, d);
    e = cellAreaM2(h, &d);
    O(o, e);
    if (!e) O(o, d);
    int fc = 0;
    e = maxFaceCount(h, &fc);
    O(o, e);
    if (!e && fc >= 1 && fc <= 5) {
        int f[5] = {-7, -7, -7, -7, -7};
        e = getIcosahedronFaces(h, f);
        O(o, e);
        if (!e) o_put(o, f, fc * sizeof(int));
    }
    if (!cellToLatLng(h, &g)) {
        uint64_t back = 0;
        e = latLngToCell(&g, getResolution(h), &back);
        O(o, e);
        O(o, back);
    }
}
static void ex_misc(uint64_t h, Out *o) {
    O(o, getResolution(h));
    O(o, getBaseCellNumber(h));
    O(o, isValidCell(h));
    O(o, isPentagon(h));
    O(o, isResClassIII(h));
    O(o, isValidDirectedEdge(h));
    O(o, isValidVertex(h));
    char s[17];
    memset(s, 0, sizeof s);
    H3Error e = h3ToString(h, s, 17);
    O(o, e);
    if (!e) {
        o_put(o, s, strlen(s) + 1);
        uint64_t back = 0;
        e = stringToH3(s, &back);
        O(o, e);
        O(o, back);
    }
    char s2[8];
    e = h3ToString(h, s2, 8);
    O(o, e);
    const char *d = describeH3Error((H3Error)(h & 31));
    if (d) o_put(o, d, strlen(d) + 1);
}
static void ex_hier(uint64_t h, Out *o) {
    int r = getResolution(h);
    uint64_t p = 0, c = 0, back = 0;
    int64_t n = 0, pos = 0;
    H3Error e;
    int pr = r > 0 ? r - 1 : 0, pr2 = r > 2 ? r - 2 : 0, cr = r < 15 ? r + 1 : 15, cr2 = r < 14 ? r + 2 : 15;
    e = cellToParent(h, pr, &p);
    O(o, e);
    O(o, p);
    e = cellToCenterChild(h, cr, &c);
    O(o, e);
    O(o, c);
    e = cellToChildrenSize(h, cr2, &n);
    O(o, e);
    O(o, n);
    if (!e && n > 0 && n <= 49) {
        uint64_t ch[49];
        memset(ch, 0, sizeof ch);
        e = cellToChildren(h, cr2, ch);
        O(o, e);
        o_put(o, ch, n * 8);
    }
    e = cellToChildPos(h, pr2, &pos);
    O(o, e);
    O(o, pos);
    if (!e) {
        uint64_t pp = 0;
        if (!cellToParent(h, pr2, &pp)) {
            e = childPosToCell(pos, pp, r, &back);
            O(o, e);
            O(o, back);
        }
    }
    e = childPosToCell(3, h, cr2, &back);
    O(o, e);
    if (!e) O(o, back);
    e = cellToParent(h, 16, &p);
    O(o, e);
}
static void ex_edge(uint64_t h, Out *o) {
    uint64_t ed[6] = {0};
    H3Error e = originToDirectedEdges(h, ed);
    O(o, e);
    if (e) return;
    o_put(o, ed, sizeof ed);
    for (int i = 0; i < 6; i++) {
        if (!ed[i]) continue;
        uint64_t a = 0, od[2] = {0, 0};
        CellBoundary cb;
        double d = 0;
        O(o, isValidDirectedEdge(ed[i]));
        e = getDirectedEdgeOrigin(ed[i], &a);
        O(o, e);
        O(o, a);
        e = getDirectedEdgeDestination(ed[i], &a);
        O(o, e);
        O(o, a);
        e = directedEdgeToCells(ed[i], od);
        O(o, e);
        o_put(o, od, sizeof od);
        e = directedEdgeToBoundary(ed[i], &cb);
        O(o, e);
        if (!e) o_cb(o, &cb);
        e = edgeLengthRads(ed[i], &d);
        O(o, e);
        if (!e) O(o, d);
        e = edgeLengthKm(ed[i], &d);
        O(o, e);
        if (!e) O(o, d);
        e = edgeLengthM(ed[i], &d);
        O(o, e);
        if (!e) O(o, d);
    }
}
static void ex_vert(uint64_t h, Out *o) {
    uint64_t v[6] = {0};
    H3Error e = cellToVertexes(h, v);
    O(o, e);
    if (e) return;
    o_put(o, v, sizeof v);
    for (int i = 0; i < 6; i++) {
        uint64_t x = 0;
        LatLng g = {0, 0};
        e = cellToVertex(h, i, &x);
        O(o, e);
        O(o, x);
        if (!v[i]) continue;
        O(o, isValidVertex(v[i]));
        e = vertexToLatLng(v[i], &g);
        O(o, e);
        if (!e) o_ll(o, &g);
    }
    uint64_t x = 0;
    e = cellToVertex(h, 7, &x);
    O(o, e);
}
static void ex_disk(uint64_t h, int k, Out *o) {
    int64_t sz = 0;
    H3Error e = maxGridDiskSize(k, &sz);
    O(o, e);
    O(o, sz);
    if (e || sz <= 0 || sz > 1000) return;
    uint64_t *out = malloc((2 * sz + 2) * 8);
    int *dist = malloc((2 * sz + 2) * sizeof(int));
#define CLR()                              \
    memset(out, 0, (2 * sz + 2) * 8);      \
    memset(dist, 0, (2 * sz + 2) * sizeof(int))
    CLR();
    e = gridDisk(h, k, out);
    O(o, e);
    o_put(o, out, sz * 8);
    uint64_t second = sz > 1 ? out[1] : 0;
    CLR();
    e = gridDiskDistances(h, k, out, dist);
    O(o, e);
    o_put(o, out, sz * 8);
    o_put(o, dist, sz * sizeof(int));
    CLR();
    e = gridDiskDistancesSafe(h, k, out, dist);
    O(o, e);
    o_put(o, out, sz * 8);
    o_put(o, dist, sz * sizeof(int));
    CLR();
    e = gridDiskUnsafe(h, k, out);
    O(o, e);
    if (!e) o_put(o, out, sz * 8);
    CLR();
    e = gridDiskDistancesUnsafe(h, k, out, dist);
    O(o, e);
    if (!e) {
        o_put(o, out, sz * 8);
        o_put(o, dist, sz * sizeof(int));
    }
    CLR();
    e = gridRingUnsafe(h, k, out);
    O(o, e);
    if (!e) o_put(o, out, (k ? 6 * k : 1) * 8);
    CLR();
    uint64_t two[2] = {h, second ? second : h};
    e = gridDisksUnsafe(two, 2, k, out);
    O(o, e);
    if (!e) o_put(o, out, 2 * sz * 8);
#undef CLR
    free(out);
    free(dist);
}
static void ex_pair(uint64_t a, uint64_t b, Out *o) {
    int nb = -1;
    uint64_t ed = 0, back = 0;
    int64_t d = -1, n = -1;
    CoordIJ ij = {0, 0};
    H3Error e;
    e = areNeighborCells(a, b, &nb);
    O(o, e);
    O(o, nb);
    e = cellsToDirectedEdge(a, b, &ed);
    O(o, e);
    O(o, ed);
    e = gridDistance(a, b, &d);
    O(o, e);
    O(o, d);
    e = gridPathCellsSize(a, b, &n);
    O(o, e);
    O(o, n);
    if (!e && n > 0 && n <= 600) {
        uint64_t *path = calloc(n + 1, 8);
        e = gridPathCells(a, b, path);
        O(o, e);
        o_put(o, path, n * 8);
        free(path);
    }
    e = cellToLocalIj(a, b, 0, &ij);
    O(o, e);
    O(o, ij.i);
    O(o, ij.j);
    if (!e) {
        e = localIjToCell(a, &ij, 0, &back);
        O(o, e);
        O(o, back);
    }
    e = cellToLocalIj(a, b, 1, &ij);
    O(o, e);
}
static void ex_point(double lat, double lng, int res, Out *o) {
    LatLng g = {lat, lng}, g2 = {lng / 3, lat * 2};
    uint64_t h = 0;
    H3Error e = latLngToCell(&g, res, &h);
    O(o, e);
    O(o, h);
    O(o, greatCircleDistanceRads(&g, &g2));
    O(o, greatCircleDistanceKm(&g, &g2));
    O(o, greatCircleDistanceM(&g, &g2));
    O(o, degsToRads(lat));
    O(o, radsToDegs(lng));
}
static void ex_res(int r, Out *o) {
    double d = 0;
    int64_t n = 0;
    H3Error e;
    e = getHexagonAreaAvgKm2(r, &d);
    O(o, e);
    if (!e) O(o, d);
    e = getHexagonAreaAvgM2(r, &d);
    O(o, e);
    if (!e) O(o, d);
    e = getHexagonEdgeLengthAvgKm(r, &d);
    O(o, e);
    if (!e) O(o, d);
    e = getHexagonEdgeLengthAvgM(r, &d);
    O(o, e);
    if (!e) O(o, d);
    e = getNumCells(r, &n);
    O(o, e);
    if (!e) O(o, n);
    O(o, res0CellCount());
    O(o, pentagonCount());
    uint64_t p[12] = {0};
    e = getPentagons(r, p);
    O(o, e);
    if (!e) o_put(o, p, sizeof p);
    if ((r & 3) == 0) {
        uint64_t r0[122];
        memset(r0, 0, sizeof r0);
        e = getRes0Cells(r0);
        O(o, e);
        o_put(o, r0, sizeof r0);
    }
    const char *s = describeH3Error((H3Error)r);
    if (s) o_put(o, s, strlen(s) + 1);
    e = maxGridDiskSize(r, &n);
    O(o, e);
    if (!e) O(o, n);
}
static void ex_compact(const uint64_t *set, int64_t n, int res, Out *o) {
    uint64_t *out = calloc(n + 1, 8);
    H3Error e = compactCells(set, out, n);
    O(o, e);
    if (!e) {
        o_put(o, out, n * 8);
        int64_t sz = -1;
        e = uncompactCellsSize(out, n, res, &sz);
        O(o, e);
        O(o, sz);
        if (!e && sz >= 0 && sz <= n + 8) {
            uint64_t *back = calloc(sz + 1, 8);
            e = uncompactCells(out, n, back, sz, res);
            O(o, e);
            o_put(o, back, sz * 8);
            if (sz > 1) {
                e = uncompactCells(out, n, back, sz - 1, res);
                O(o, e);
            }
            free(back);
        }
    }
    free(out);
}
static void ex_poly(const Poly *p, Out *o) {
    int64_t n = -1;
    H3Error e = maxPolygonToCellsSize(&p->gp, p->res, 0, &n);
    O(o, e);
    O(o, n);
    if (!e && n >= 0 && n <= 200000) {
        uint64_t *out = calloc(n + 1, 8);
        e = polygonToCells(&p->gp, p->res, 0, out);
        O(o, e);
        if (!e) o_put(o, out, n * 8);
        free(out);
    }
    for (uint32_t fl = 0; fl <= 4; fl++) {
        n = -1;
        e = maxPolygonToCellsSizeExperimental(&p->gp, p->res, fl, &n);
        O(o, e);
        O(o, n);
        if (e || n < 0 || n > 200000) continue;
        uint64_t *out = calloc(n + 1, 8);
        e = polygonToCellsExperimental(&p->gp, p->res, fl, n, out);
        O(o, e);
        if (!e) o_put(o, out, n * 8);
        if (n > 2) {
            memset(out, 0, n * 8);
            e = polygonToCellsExperimental(&p->gp, p->res, fl, 1, out);
            O(o, e);
        }
        free(out);
    }
}
static void ex_multi(const uint64_t *set, int64_t n, Out *o) {
    LinkedGeoPolygon lp;
    memset(&lp, 0, sizeof lp);
    H3Error e = cellsToLinkedMultiPolygon(set, (int)n, &lp);
    O(o, e);
    if (e) return;
    for (LinkedGeoPolygon *pg = &lp; pg; pg = pg->next) {
        O(o, (char)'P');
        for (LinkedGeoLoop *l = pg->first; l; l = l->next) {
            O(o, (char)'L');
            for (LinkedLatLng *v = l->first; v; v = v->next) o_ll(o, &v->vertex);
        }
    }
    destroyLinkedMultiPolygon(&lp);
}
static void prep_exec(const Prep *p, Out *o) {
    O(o, p->kind);
    switch (p->kind) {
        case K_GEOM: ex_geom(p->h, o); break;
        case K_HIER: ex_hier(p->h, o); break;
        case K_EDGE: ex_edge(p->h, o); break;
        case K_VERT: ex_vert(p->h, o); break;
        case K_MISC: ex_misc(p->h, o); break;
        case K_DISK: ex_disk(p->h, p->k, o); break;
        case K_PAIR: ex_pair(p->h, p->h2, o); break;
        case K_POINT: ex_point(p->lat, p->lng, p->res, o); break;
        case K_RES: ex_res(p->res, o); break;
        case K_COMPACT: ex_compact(p->set, p->nset, p->res, o); break;
        case K_POLY: ex_poly(p->poly, o); break;
        case K_MULTI: ex_multi(p->set, p->nset, o); break;
    }
}

// ---- building inputs (main thread only; uses the library itself to construct sets -- inputs need not be independent)
static uint64_t cell_at(double lat, double lng, int res) {
    LatLng g = {lat, lng};
    uint64_t h = 0;
    latLngToCell(&g, res, &h);
    return h;
}
static uint64_t pent_at(int res, int which) {
    uint64_t p[12] = {0};
    getPentagons(res, p);
    return p[which % 12];
}
static uint64_t nbr_of(uint64_t h, int which) {
    uint64_t out[7] = {0};
    gridDisk(h, 1, out);
    int n = 0;
    for (int i = 0; i < 7; i++)
        if (out[i] && out[i] != h && n++ == which) return out[i];
    return h;
}
// set patterns over gridDisk(h,k): 0 full, 1 centre removed, 2 outer ring + centre (island in hole), 3 alternate removed, 4 two disjoint disks
static void make_set(uint64_t h, int k, int pattern, uint64_t **set, int64_t *n) {
    int64_t sz = 0;
    maxGridDiskSize(k, &sz);
    uint64_t *out = calloc(2 * sz + 2, 8);
    int *dist = calloc(2 * sz + 2, sizeof(int));
    gridDiskDistances(h, k, out, dist);
    int64_t m = 0;
    uint64_t *s = calloc(2 * sz + 2, 8);
    for (int64_t i = 0; i < sz; i++) {
        if (!out[i]) continue;
        int keep = 1;
        if (pattern == 1) keep = out[i] != h;
        if (pattern == 2) keep = dist[i] == k || dist[i] == 0 || (k >= 3 && dist[i] <= k - 3);
        if (pattern == 3) keep = (i % 2) == 0;
        if (keep) s[m++] = out[i];
    }
    if (pattern == 4) {
        // a second disk 2k+3 steps away along a path
        uint64_t far = h;
        for (int st = 0; st < 2 * k + 3; st++) far = nbr_of(far, 0) == far ? far : nbr_of(far, (st % 2) ? 0 : 1);
        int64_t before = m;
        memset(out, 0, (2 * sz + 2) * 8);
        gridDisk(far, k, out);
        for (int64_t i = 0; i < sz; i++) {
            if (!out[i]) continue;
            int dup = 0;
            for (int64_t j = 0; j < before; j++)
                if (s[j] == out[i]) dup = 1;
            if (!dup) s[m++] = out[i];
        }
    }
    free(out);
    free(dist);
    *set = s;
    *n = m;
}
// compaction inputs: kind 0 all children at +depth, 1 minus the last child, 2 minus the centre child, 3 with a duplicate (error), 4 reversed order
static void make_compact(uint64_t root, int depth, int kind, uint64_t **set, int64_t *n, int *res) {
    int r = getResolution(root) + depth;
    if (r > 15) r = 15;
    int64_t sz = 0;
    cellToChildrenSize(root, r, &sz);
    uint64_t *s = calloc(sz + 2, 8);
    cellToChildren(root, r, s);
    int64_t m = sz;
    if (kind == 1) m = sz - 1;
    if (kind == 2) {
        memmove(s, s + 1, (sz - 1) * 8);
        m = sz - 1;
    }
    if (kind == 3 && sz > 1) s[sz - 1] = s[0];
    if (kind == 4)
        for (int64_t i = 0; i < sz / 2; i++) {
            uint64_t t = s[i];
            s[i] = s[sz - 1 - i];
            s[sz - 1 - i] = t;
        }
    *set = s;
    *n = m;
    *res = r;
}

// ================================================================================================ TRAP part
#if defined(C18_TRAP)
extern char __start_h3data[], __stop_h3data[], __start_h3bss[], __stop_h3bss[];
static void on_segv(int sig, siginfo_t *si, void *u) {
    (void)sig;
    (void)u;
    char *a = si->si_addr;
    int in_d = a >= __start_h3data && a < __stop_h3data, in_b = a >= __start_h3bss && a < __stop_h3bss;
    if (!in_d && !in_b) {
        signal(SIGSEGV, SIG_DFL);  // an ordinary crash: let it kill the worker with SIGSEGV
        return;
    }
    if (mc_note)
        snprintf(mc_note, 4000, "the call wrote library-owned static storage: %s+0x%lx (library %s section, first 4096 bytes are a pad)",
                 in_d ? "h3data" : "h3bss", (unsigned long)(a - (in_d ? __start_h3data : __start_h3bss)), in_d ? ".data" : ".bss");
    if (mc_replaying_file) {
        dprintf(1, "  observed: write trap: %s\nVIOLATION property=C18 replay=%s\n", mc_note ? mc_note : "", mc_replaying_file);
        _exit(1);
    }
    _exit(96);
}
static void trap_arm(void) {
    struct sigaction sa;
    memset(&sa, 0, sizeof sa);
    sa.sa_sigaction = on_segv;
    sa.sa_flags = SA_SIGINFO;
    sigaction(SIGSEGV, &sa, NULL);
    uintptr_t a, b;
    if ((long)(__stop_h3data - __start_h3data) < 8192 + LIBDATA || (long)(__stop_h3bss - __start_h3bss) < 8192 + LIBBSS) {
        fprintf(stderr, "HARNESS ERROR: the library's writable sections were not placed between the trap pads\n");
        exit(2);
    }
    a = (uintptr_t)__start_h3data, b = (uintptr_t)__stop_h3data;
    if ((a & 4095) || (b & 4095) || mprotect((void *)a, b - a, PROT_READ)) {
        fprintf(stderr, "HARNESS ERROR: h3data not page aligned or mprotect failed\n");
        exit(2);
    }
    a = (uintptr_t)__start_h3bss, b = (uintptr_t)__stop_h3bss;
    if ((a & 4095) || (b & 4095) || mprotect((void *)a, b - a, PROT_READ)) {
        fprintf(stderr, "HARNESS ERROR: h3bss not page aligned or mprotect failed\n");
        exit(2);
    }
}
enum { OP_CELLW, OP_DISKW, OP_PAIRW, OP_POINTW, OP_RESW, OP_COMPACTW, OP_POLYW, OP_MULTIW, OP_SELFTEST };
static Out tout;
static void after(void) {
    mc_ctr(0, 1);
    mc_ctr(8, lg_nalloc);
    if (lg_nalloc) mc_nontrivial();
    if (lg_live || lg_errors) mc_fail("allocator ledger: %ld live blocks, %ld bad frees after the workload", lg_live, lg_errors);
    lg_reset();
    tout.len = 0;
}
static void op_cellw(const McArg *a) {
    uint64_t h = a[0].u;
    ex_geom(h, &tout);
    ex_misc(h, &tout);
    ex_hier(h, &tout);
    ex_edge(h, &tout);
    ex_vert(h, &tout);
    mc_trans(60);
    if (spec_valid(h) && spec_is_pentagon(h)) mc_nontrivial();
    after();
}
static void op_diskw(const McArg *a) {
    ex_disk(a[0].u, (int)a[1].i, &tout);
    mc_trans(8);
    after();
}
static void op_pairw(const McArg *a) {
    ex_pair(a[0].u, a[1].u, &tout);
    mc_trans(7);
    after();
}
static void op_pointw(const McArg *a) {
    ex_point(a[0].d, a[1].d, (int)a[2].i, &tout);
    mc_trans(6);
    after();
}
static void op_resw(const McArg *a) {
    ex_res((int)a[0].i, &tout);
    mc_trans(11);
    after();
}
static void op_compactw(const McArg *a) {
    uint64_t *s;
    int64_t n;
    int res;
    make_compact(a[0].u, (int)a[1].i, (int)a[2].i, &s, &n, &res);
    lg_reset();
    ex_compact(s, n, res, &tout);
    free(s);
    mc_trans(4);
    after();
}
static void op_polyw(const McArg *a) {
    static Poly p;
    if (poly_build((int)a[0].i, (int)a[1].i, (int)a[2].i, (int)a[3].i, &p)) return;
    lg_reset();
    ex_poly(&p, &tout);
    mc_trans(12);
    after();
}
static void op_multiw(const McArg *a) {
    uint64_t *s;
    int64_t n;
    make_set(a[0].u, (int)a[1].i, (int)a[2].i, &s, &n);
    lg_reset();
    if (n > 0) ex_multi(s, n, &tout);
    free(s);
    mc_trans(2);
    after();
}
// self-test of the trap: the pad bytes belong to the protected range; writing one must trap (run in a child, expected to die with 96)
extern char h3data_head[];
static void op_selftest(const McArg *a) {
    (void)a;
    volatile char *p = h3data_head;
    p[17] = 1;
}
const McOp MC_OPS[] = {{"cellw", "h", op_cellw}, {"diskw", "hi", op_diskw}, {"pairw", "hh", op_pairw}, {"pointw", "ddi", op_pointw},
                       {"resw", "i", op_resw}, {"compactw", "hii", op_compactw}, {"polyw", "iiii", op_polyw}, {"multiw", "hii", op_multiw},
                       {"selftest", "", op_selftest}};
const int MC_NOPS = sizeof MC_OPS / sizeof *MC_OPS;

static U64Vec cells[16], idx;
static void ph_cells(void *arg) {
    (void)arg;
    uint64_t n = 0;
    for (int r = 0; r < 16; r++)
        for (size_t i = 0; i < cells[r].n; i++, n++) {
            if (!mc_mine(n)) continue;
            if (mc_expired()) return;
            MC_RUN(OP_CELLW, H(cells[r].v[i]));
        }
}
static void ph_idx(void *arg) {
    (void)arg;
    for (size_t i = 0; i < idx.n; i++) {
        if (!mc_mine(i)) continue;
        if (mc_expired()) return;
        MC_RUN(OP_CELLW, H(idx.v[i]));
        if (i % 4 == 0) MC_RUN(OP_DISKW, H(idx.v[i]), I(1));
        if (i % 4 == 1 && i + 7 < idx.n) MC_RUN(OP_PAIRW, H(idx.v[i]), H(idx.v[i + 7]));
    }
}
static void ph_disks(void *arg) {
    (void)arg;
    uint64_t n = 0;
    int kmax = mc_thorough ? 4 : 3;
    for (int r = 0; r < 16; r++)
        for (size_t i = 0; i < cells[r].n; i += (mc_thorough ? 1 : 3), n++) {
            if (!mc_mine(n)) continue;
            if (mc_expired()) return;
            for (int k = 0; k <= kmax; k++) MC_RUN(OP_DISKW, H(cells[r].v[i]), I(k));
            MC_RUN(OP_DISKW, H(cells[r].v[i]), I(-1));
        }
}
static void ph_pairs(void *arg) {
    (void)arg;
    uint64_t n = 0;
    for (int r = 0; r < 16; r++)
        for (size_t i = 0; i < cells[r].n; i += (mc_thorough ? 1 : 3), n++) {
            if (!mc_mine(n)) continue;
            if (mc_expired()) return;
            uint64_t a = cells[r].v[i], out[19] = {0};
            gridDisk(a, 2, out);
            for (int j = 0; j < 19; j++)
                if (out[j]) MC_RUN(OP_PAIRW, H(a), H(out[j]));
            // a long path and a mismatched resolution
            MC_RUN(OP_PAIRW, H(a), H(cells[r].v[(i + 5) % cells[r].n]));
            MC_RUN(OP_PAIRW, H(a), H(cells[(r + 1) % 16].v[0]));
        }
}
static void ph_points(void *arg) {
    (void)arg;
    double d[64];
    int nd = dom_dbls(d);
    uint64_t n = 0;
    for (int i = 0; i < nd; i++)
        for (int j = 0; j < nd; j++)
            for (int r = -1; r <= 16; r++, n++) {
                if (!mc_mine(n)) continue;
                MC_RUN(OP_POINTW, D(d[i]), D(d[j]), I(r));
            }
    for (int r = 0; r < 16; r++)
        for (int i = 0; i < 200; i++, n++) {
            if (!mc_mine(n)) continue;
            MC_RUN(OP_POINTW, D(-1.5 + 0.015 * i), D(-3.2 + 0.032 * i * 1.37), I(r));
        }
}
static void ph_res(void *arg) {
    (void)arg;
    for (int i = 0; i < DOM_NINTS; i++)
        if (mc_mine(i)) MC_RUN(OP_RESW, I(DOM_INTS[i]));
    for (int r = 0; r < 16; r++)
        if (mc_mine(r)) MC_RUN(OP_RESW, I(r));
}
static void ph_compact(void *arg) {
    (void)arg;
    uint64_t n = 0;
    for (int r = 0; r < 14; r++)
        for (size_t i = 0; i < cells[r].n; i += (mc_thorough ? 7 : 29))
            for (int depth = 1; depth <= (mc_thorough ? 4 : 3); depth++)
                for (int kind = 0; kind < 5; kind++, n++) {
                    if (!mc_mine(n)) continue;
                    if (mc_expired()) return;
                    MC_RUN(OP_COMPACTW, H(cells[r].v[i]), I(depth), I(kind));
                }
}
static void ph_poly(void *arg) {
    (void)arg;
    uint64_t n = 0;
    poly_build_anchors();
    for (int res = 0; res < 16; res++)
        for (int shape = 0; shape < POLY_NSHAPES; shape++)
            for (int an = 0; an < poly_nanchor; an += (mc_thorough ? 2 : 7))
                for (int sc = 0; sc < 4; sc++, n++) {
                    if (!mc_mine(n)) continue;
                    if (mc_expired()) return;
                    MC_RUN(OP_POLYW, I(shape), I(an), I(sc), I(res));
                }
}
static void ph_multi(void *arg) {
    (void)arg;
    uint64_t n = 0;
    for (int r = 0; r < 16; r++)
        for (size_t i = 0; i < cells[r].n; i += (mc_thorough ? 5 : 17))
            for (int k = 0; k <= 3; k++)
                for (int pat = 0; pat < 5; pat++, n++) {
                    if (!mc_mine(n)) continue;
                    if (mc_expired()) return;
                    MC_RUN(OP_MULTIW, H(cells[r].v[i]), I(k), I(pat));
                }
}
int main(int argc, char **argv) {
    mc_defer_replay = 1;
    mc_init(argc, argv);
    o_init(&tout, 64 << 20);
    if (mc_replaying_file) {
        trap_arm();
        return mc_do_replay(mc_replaying_file);
    }
    // self-test before arming for real: a write into the protected pad must be reported by the trap
    {
        McCase c = {OP_SELFTEST, {{0}}};
        pid_t p = fork();
        if (p == 0) {
            trap_arm();
            mc_run_case(&c);
            _exit(0);
        }
        int st;
        waitpid(p, &st, 0);
        if (!(WIFEXITED(st) && WEXITSTATUS(st) == 96)) {
            fprintf(stderr, "HARNESS ERROR: write-trap self-test did not trap (status %x)\n", st);
            return 2;
        }
    }
    for (int r = 0; r < 16; r++) dom_fine(r, mc_thorough ? 0 : 1, &cells[r]);
    dom_idx(mc_thorough ? 1 : 0, &idx);
    size_t nc = 0;
    for (int r = 0; r < 16; r++) nc += cells[r].n;
    snprintf(mc_bounds, sizeof mc_bounds,
             "trap: library-owned writable storage = %ld bytes of .data + %ld bytes of .bss (plus pads); cells FINE(r,level %d) r=0..15 = %zu cells, "
             "IDX %zu hostile values; disks k<=%d; pairs = 2-ring + long + mismatched; points DBLS^2 x res -1..16; polygons catalogue (anchors "
             "thinned by %d) x 4 scales x 16 res x legacy+5 flag values; multipolygon k<=3 x 5 patterns; compaction depth<=%d x 5 kinds",
             (long)(__stop_h3data - __start_h3data) - 8192, (long)(__stop_h3bss - __start_h3bss) - 8192, mc_thorough ? 0 : 1, nc, idx.n,
             mc_thorough ? 4 : 3, mc_thorough ? 2 : 7, mc_thorough ? 4 : 3);
    trap_arm();
    mc_phase("trap: cell workloads", ph_cells, NULL);
    mc_phase("trap: hostile indexes", ph_idx, NULL);
    mc_phase("trap: disks", ph_disks, NULL);
    mc_phase("trap: pairs", ph_pairs, NULL);
    mc_phase("trap: points", ph_points, NULL);
    mc_phase("trap: resolutions", ph_res, NULL);
    mc_phase("trap: compaction", ph_compact, NULL);
    mc_phase("trap: polygons", ph_poly, NULL);
    mc_phase("trap: multipolygons", ph_multi, NULL);
    return mc_finish();
}
#endif

// ================================================================================================ call alphabet (SCHED, TSAN)
#if defined(C18_SCHED) || defined(C18_TSAN)
#define MAXALPHA 96
static Prep ALPHA[MAXALPHA];
static int NALPHA;
static Out REF[MAXALPHA];      // sequential reference outputs
static long REF_NALLOC[MAXALPHA];
static int CORE[16], NCORE;    // small calls used for triples
static Poly POLYS[8];
static int npolys;
static Prep *add(int kind, const char *name) {
    Prep *p = &ALPHA[NALPHA++];
    memset(p, 0, sizeof *p);
    p->kind = kind;
    snprintf(p->name, sizeof p->name, "%s", name);
    return p;
}
static void add_cellkinds(uint64_t h, const char *what, int mask) {
    char nm[96];
    for (int k = K_GEOM; k <= K_MISC; k++) {
        if (!(mask & (1 << k))) continue;
        snprintf(nm, sizeof nm, "%s(%s %" PRIx64 ")", KNAME[k], what, h);
        add(k, nm)->h = h;
    }
}
static void build_alphabet(void) {
    char nm[96];
    uint64_t p0 = pent_at(0, 0), p1 = pent_at(1, 3), p15 = pent_at(15, 7);
    uint64_t h2 = nbr_of(pent_at(2, 5), 2), h5 = cell_at(0.65, -2.1, 5), h9 = cell_at(-0.3, 0.4, 9), h15 = cell_at(1.1, 3.0, 15);
    add_cellkinds(p0, "pentagon r0", 0x1f);
    add_cellkinds(p1, "pentagon r1", (1 << K_GEOM) | (1 << K_EDGE) | (1 << K_VERT));
    add_cellkinds(h2, "pentagon-neighbour r2", (1 << K_EDGE) | (1 << K_VERT) | (1 << K_HIER));
    add_cellkinds(h5, "hexagon r5", 0x1f);
    add_cellkinds(h15, "hexagon r15", (1 << K_GEOM) | (1 << K_HIER));
    add_cellkinds(p15, "pentagon r15", (1 << K_GEOM) | (1 << K_VERT));
    add_cellkinds(0, "null", (1 << K_GEOM) | (1 << K_MISC));
    {
        uint64_t ed[6] = {0}, vs[6] = {0};
        originToDirectedEdges(h5, ed);
        cellToVertexes(h5, vs);
        add_cellkinds(ed[2], "edge-index", (1 << K_MISC) | (1 << K_EDGE));
        add_cellkinds(vs[1], "vertex-index", (1 << K_MISC) | (1 << K_VERT));
    }
    struct { uint64_t h; int k; const char *w; } dk[] = {{p1, 1, "pentagon r1"}, {h2, 2, "pentagon-neighbour r2"}, {h5, 2, "hexagon r5"}, {h9, 1, "hexagon r9"}, {p15, 1, "pentagon r15"}, {h5, -1, "negative k"}};
    for (size_t i = 0; i < sizeof dk / sizeof *dk; i++) {
        snprintf(nm, sizeof nm, "disk(%s %" PRIx64 ",k=%d)", dk[i].w, dk[i].h, dk[i].k);
        Prep *p = add(K_DISK, nm);
        p->h = dk[i].h;
        p->k = dk[i].k;
    }
    {
        uint64_t far = h9;
        for (int s = 0; s < 3; s++) far = nbr_of(far, 1);
        struct { uint64_t a, b; const char *w; } pr[] = {{h5, nbr_of(h5, 3), "neighbours r5"}, {h9, far, "3 steps r9"}, {nbr_of(pent_at(2, 5), 0), nbr_of(pent_at(2, 5), 3), "across pentagon r2"}, {h5, h9, "mismatched res"}, {p1, nbr_of(p1, 1), "pentagon+neighbour r1"}};
        for (size_t i = 0; i < sizeof pr / sizeof *pr; i++) {
            snprintf(nm, sizeof nm, "pair(%s %" PRIx64 ",%" PRIx64 ")", pr[i].w, pr[i].a, pr[i].b);
            Prep *p = add(K_PAIR, nm);
            p->h = pr[i].a;
            p->h2 = pr[i].b;
        }
    }
    struct { double lat, lng; int res; } pt[] = {{0.5, 0.5, 9}, {M_PI / 2, 0, 3}, {0.2, M_PI - 1e-9, 15}, {NAN, 1, 4}};
    for (size_t i = 0; i < sizeof pt / sizeof *pt; i++) {
        snprintf(nm, sizeof nm, "point(%.3g,%.3g,r%d)", pt[i].lat, pt[i].lng, pt[i].res);
        Prep *p = add(K_POINT, nm);
        p->lat = pt[i].lat, p->lng = pt[i].lng, p->res = pt[i].res;
    }
    int rs[] = {0, 7, 15, 16};
    for (int i = 0; i < 4; i++) {
        snprintf(nm, sizeof nm, "res(%d)", rs[i]);
        add(K_RES, nm)->res = rs[i];
    }
    struct { uint64_t root; int depth, kind; const char *w; } cp[] = {{h5, 2, 0, "hexagon +2 full"}, {p1, 2, 1, "pentagon +2 minus one"}, {h9, 1, 3, "duplicate"}, {h2, 2, 4, "reversed"}};
    for (size_t i = 0; i < sizeof cp / sizeof *cp; i++) {
        snprintf(nm, sizeof nm, "compact(%s %" PRIx64 ")", cp[i].w, cp[i].root);
        Prep *p = add(K_COMPACT, nm);
        make_compact(cp[i].root, cp[i].depth, cp[i].kind, &p->set, &p->nset, &p->res);
    }
    poly_build_anchors();
    {
        // (shape, anchor kind wanted, scale, res)
        int want[][4] = {{0, 0, 0, 5}, {6, 1, 1, 3}, {1, 5, 0, 3}, {8, 0, 1, 2}};
        for (size_t i = 0; i < sizeof want / sizeof *want; i++) {
            int an = -1;
            for (int a = 0; a < poly_nanchor && an < 0; a++)
                if (poly_anchor_kind[a] == want[i][1] && !poly_build(want[i][0], a, want[i][2], want[i][3], &POLYS[npolys])) an = a;
            if (an < 0) continue;
            snprintf(nm, sizeof nm, "poly(shape %d anchor %d scale %d r%d)", want[i][0], an, want[i][2], want[i][3]);
            Prep *p = add(K_POLY, nm);
            p->poly = &POLYS[npolys++];
            p->res = want[i][3];
        }
    }
    struct { uint64_t h; int k, pat; const char *w; } ms[] = {{h5, 1, 0, "disk r5"}, {cell_at(0.1, 0.1, 3), 2, 1, "ring with hole r3"}, {h9, 1, 4, "two components r9"}, {p1, 1, 0, "pentagon disk r1"}, {h15, 3, 2, "island in hole r15"}};
    for (size_t i = 0; i < sizeof ms / sizeof *ms; i++) {
        snprintf(nm, sizeof nm, "multi(%s %" PRIx64 ")", ms[i].w, ms[i].h);
        Prep *p = add(K_MULTI, nm);
        make_set(ms[i].h, ms[i].k, ms[i].pat, &p->set, &p->nset);
    }
}
#endif

// ================================================================================================ SCHED part
#if defined(C18_SCHED)
#define MAXT 3
#define MAXPTS (1 << 18)
typedef struct {
    int id;
    pthread_t th;
    sem_t sem;
    volatile int done, quit;
    const Prep *call;
    long fail_at;  // this thread's fail_at-th allocation fails (0 = none)
    Out out;
    long nalloc;
    long npoints;  // scheduling points this thread passed in this execution (whether or not another thread was runnable)
    long stride, ctr;  // fine granularity: every stride-th library function entry is a scheduling point (API entries and allocator calls always)
} Thr;
static Thr T[MAXT];
static inline void sem_wait_nointr(sem_t *s) {
    while (sem_wait(s) == -1 && errno == EINTR) {
    }
}
static int nthr;
static sem_t main_sem;
static __thread int my_id = -1;
static volatile int sched_active;
static volatile int cur;
// sparse schedule: nonzero choices (position, alternative)
typedef struct {
    int n;
    int pos[8], alt[8];
} Sched;
static const Sched *S;
static int npts;                 // choice points seen in this execution
static uint8_t *P_nen, *P_run;   // per choice point: number of enabled threads, 1 if the running thread was still enabled
static int diverged, horizon, static_changed;
static int gran;                 // 0 fine: every library function entry + allocator call; 1 coarse: API entry/exit + allocator calls
static __thread int depth;       // library call depth of this thread (the harness is not instrumented, so depth 1 = an exported function)
extern char __start_h3data[], __stop_h3data[], __start_h3bss[], __stop_h3bss[];
static uint64_t base_hash;
static uint64_t static_hash(void) {
    uint64_t h = 0xcbf29ce484222325ull;
    for (const char *p = __start_h3data; p < __stop_h3data; p++) h = (h ^ (uint8_t)*p) * 0x100000001b3ull;
    for (const char *p = __start_h3bss; p < __stop_h3bss; p++) h = (h ^ (uint8_t)*p) * 0x100000001b3ull;
    return h;
}
static long solo_pts[MAXT];      // scheduling points passed by each thread while another thread was runnable

static inline int choose(int n, int running_enabled) {
    int alt = 0;
    if (static_hash() != base_hash) static_changed = 1;
    if (npts < MAXPTS) {
        for (int i = 0; i < S->n; i++)
            if (S->pos[i] == npts) alt = S->alt[i];
        if (alt >= n) {
            diverged = 1;
            alt = 0;
        }
        P_nen[npts] = (uint8_t)n;
        P_run[npts] = (uint8_t)running_enabled;
    } else
        horizon = 1;
    npts++;
    return alt;
}
// called by the running thread at a scheduling point
static void sched_point(void) {
    int me = my_id;
    int en[MAXT], n = 0;
    T[me].npoints++;
    en[n++] = me;
    for (int t = 0; t < nthr; t++)
        if (t != me && !T[t].done) en[n++] = t;
    if (n < 2) return;
    solo_pts[me]++;
    int target = en[choose(n, 1)];
    if (target == me) return;
    cur = target;
    sem_post(&T[target].sem);
    sem_wait_nointr(&T[me].sem);
}
static void sched_exit(void) {
    int me = my_id;
    int en[MAXT], n = 0;
    for (int t = 0; t < nthr; t++)
        if (t != me && !T[t].done) en[n++] = t;
    if (n == 0) {
        sem_post(&main_sem);
        return;
    }
    int target = n == 1 ? en[0] : en[choose(n, 0)];
    cur = target;
    sem_post(&T[target].sem);
}
void __cyg_profile_func_enter(void *fn, void *site) __attribute__((no_instrument_function));
void __cyg_profile_func_exit(void *fn, void *site) __attribute__((no_instrument_function));
void __cyg_profile_func_enter(void *fn, void *site) {
    (void)fn;
    (void)site;
    if (my_id < 0) return;
    depth++;
    if (!sched_active) return;
    if (depth == 1)
        sched_point();
    else if (gran == 0 && ++T[my_id].ctr % T[my_id].stride == 0)
        sched_point();
}
void __cyg_profile_func_exit(void *fn, void *site) {
    (void)fn;
    (void)site;
    if (my_id < 0) return;
    depth--;
    if (sched_active && gran == 1 && depth == 0) sched_point();
}
static void alloc_hook(int kind) {
    (void)kind;
    if (my_id >= 0 && sched_active) sched_point();
}
static void *thr_main(void *arg) {
    Thr *t = arg;
    my_id = t->id;
    for (;;) {
        sem_wait_nointr(&t->sem);
        if (t->quit) return NULL;
        lg_tn = 0;
        depth = 0;
        lg_tfail = t->fail_at;
        t->out.len = 0;
        t->out.overflow = 0;
        sched_point();
        prep_exec(t->call, &t->out);
        t->nalloc = lg_tn;
        lg_tfail = 0;
        t->done = 1;
        sched_exit();
    }
}
static pid_t threads_pid;
static void threads_start(void) {
    if (threads_pid == getpid()) return;
    threads_pid = getpid();
    sem_init(&main_sem, 0, 0);
    for (int i = 0; i < MAXT; i++) {
        T[i].id = i;
        sem_init(&T[i].sem, 0, 0);
        o_init(&T[i].out, 1 << 20);
        pthread_create(&T[i].th, NULL, thr_main, &T[i]);
    }
    if (!P_nen) P_nen = malloc(MAXPTS), P_run = malloc(MAXPTS);
    lg_hook = alloc_hook;
}
// one execution under schedule s; returns number of choice points
static int run_sched(const Sched *s) {
    threads_start();
    S = s;
    npts = 0;
    diverged = horizon = static_changed = 0;
    for (int t = 0; t < nthr; t++) {
        T[t].done = 0, solo_pts[t] = 0, T[t].npoints = 0, T[t].ctr = 0;
        if (T[t].stride < 1) T[t].stride = 1;
    }
    lg_reset();
    sched_active = 1;
    // initial choice: which thread starts (no thread is running, so no preemption)
    int first = nthr > 1 ? choose(nthr, 0) : 0;
    cur = first;
    sem_post(&T[first].sem);
    sem_wait_nointr(&main_sem);
    sched_active = 0;
    return npts;
}
// sequential reference of call c with allocation `fail` failing (0 none), computed on thread 0 alone
static Out ref_tmp;
static long ref_run(const Prep *c, long fail, Out *dst) {
    static Sched none;
    nthr = 1;
    T[0].call = c;
    T[0].fail_at = fail;
    T[0].stride = 1;
    run_sched(&none);
    dst->len = 0;
    o_put(dst, T[0].out.b, T[0].out.len);
    return T[0].nalloc;
}

enum { OP_PAIRS, OP_TRIPLE, OP_PAIRF, OP_SCHED1, OP_HIST };
static long REF_PTS[MAXALPHA][2];  // scheduling points of each call alone, per granularity (fine measured with stride 1)
static long PMAX = 200;            // fine granularity: at most about PMAX strided points per call
static long stride_of(int call) { return (REF_PTS[call][0] + PMAX - 1) / PMAX > 0 ? (REF_PTS[call][0] + PMAX - 1) / PMAX : 1; }
static double REF_TIME[MAXALPHA];   // seconds for one solo execution under the scheduler (fine hooks active)
static long pts_of(int call, int g) { return g ? REF_PTS[call][1] : REF_PTS[call][0] / stride_of(call) + REF_PTS[call][1]; }
typedef struct {
    uint64_t nsched, byp[4], maxpts, nontrivial_execs;
    uint64_t outcome_hash[64];
    int noutcomes;
} Tally;
static Tally tally;
static uint64_t fnv(const uint8_t *b, size_t n, uint64_t h) {
    for (size_t i = 0; i < n; i++) h = (h ^ b[i]) * 0x100000001b3ull;
    return h;
}
// compare one finished execution with the references; returns 0 ok, else writes msg
static int judge(const int *calls, const long *fails, char *msg, size_t n) {
    uint64_t oh = 0xcbf29ce484222325ull;
    for (int t = 0; t < nthr; t++) oh = fnv(T[t].out.b, T[t].out.len, oh);
    int seen = 0;
    for (int i = 0; i < tally.noutcomes; i++)
        if (tally.outcome_hash[i] == oh) seen = 1;
    if (!seen && tally.noutcomes < 64) tally.outcome_hash[tally.noutcomes++] = oh;
    for (int t = 0; t < nthr; t++) {
        const Out *ref = &REF[calls[t]];
        Out tmp;
        if (fails[t]) {
            // reference with the same fault, computed lazily by the caller into ref_tmp
            tmp = ref_tmp;
            ref = &tmp;
        }
        if (T[t].out.overflow) {
            snprintf(msg, n, "thread %d output buffer overflow", t);
            return 1;
        }
        if (T[t].out.len != ref->len || memcmp(T[t].out.b, ref->b, ref->len)) {
            size_t k = 0;
            while (k < ref->len && k < T[t].out.len && T[t].out.b[k] == ref->b[k]) k++;
            snprintf(msg, n, "thread %d running %s produced output differing from its sequential reference at byte %zu (lengths %zu vs %zu)", t,
                     ALPHA[calls[t]].name, k, T[t].out.len, ref->len);
            return 1;
        }
    }
    if (lg_live || lg_errors) {
        snprintf(msg, n, "allocator ledger after the execution: %ld live blocks, %ld double/foreign frees", lg_live, lg_errors);
        return 1;
    }
    if (!getenv("C18_NOSTATIC") && (static_changed || static_hash() != base_hash)) {  // C18_NOSTATIC: demonstration aid only (shows the output oracle alone)
        snprintf(msg, n, "library-owned static storage (.data/.bss of the library objects) changed during the execution: the library keeps mutable global state");
        return 1;
    }
    return 0;
}
static void sched_args(const int *calls, const long *fails, const Sched *s, McArg *a) {
    // args: i j k(-1) failthread failidx n then packed (pos<<8|alt) x4
    a[0] = I(calls[0]);
    a[1] = I(calls[1]);
    a[2] = I(nthr > 2 ? calls[2] : -1);
    long ft = -1, fi = 0;
    for (int t = 0; t < nthr; t++)
        if (fails[t]) ft = t, fi = fails[t];
    a[3] = I(ft);
    a[4] = I(fi);
    a[5] = I(s->n | gran << 8);
    for (int i = 0; i < 4; i++) a[6 + i] = I(i < s->n ? ((int64_t)s->pos[i] << 8 | s->alt[i]) : 0);
}
static int explore_failed;
static void explore(const int *calls, const long *fails, Sched *s, int depth, int used, int bound, double t_end) {
    if (explore_failed) return;
    int n = run_sched(s);
    tally.nsched++;
    mc_ctr(1, 1);
    mc_ctr(2 + (used > 2 ? 2 : used), 1);
    mc_ctr(5, n);
    if ((uint64_t)n > tally.maxpts) tally.maxpts = n;
    mc_max(0, n);
    if (horizon) mc_ctr(12, 1);
    int nt = 1;
    for (int t = 0; t < nthr; t++)
        if (solo_pts[t] < 2) nt = 0;
    if (nt) tally.nontrivial_execs++;
    char msg[400];
    int bad = judge(calls, fails, msg, sizeof msg);
    if (diverged) mc_ctr(11, 1);
    if (bad || diverged) {
        McArg a[10];
        sched_args(calls, fails, s, a);
        if (s->n <= 4) {
            MC_FAIL_AS(OP_SCHED1, 10, a, "%s%s [schedule: %d nonzero choices, %d preemptions, %d choice points]", bad ? msg : "",
                       diverged ? " (replay of the schedule prefix diverged: the set of enabled threads changed => schedule-dependent behaviour)" : "",
                       s->n, used, n);
        } else
            mc_fail("%s (schedule with %d nonzero choices)", bad ? msg : "divergence", s->n);
        explore_failed = 1;
        return;
    }
    if (s->n >= 8) return;
    int from = s->n ? s->pos[s->n - 1] + 1 : 0;
    if (n > MAXPTS) n = MAXPTS;
    if (from >= n) return;
    // copy this execution's choice-point table: nested runs overwrite it
    uint8_t *nen = malloc(n - from), *run = malloc(n - from);
    memcpy(nen, P_nen + from, n - from);
    memcpy(run, P_run + from, n - from);
    for (int i = from; i < n && !explore_failed; i++) {
        int cost = used + (run[i - from] ? 1 : 0);
        if (cost > bound) continue;
        if (mc_now() > t_end) {
            mc_w->incomplete = 1;
            break;
        }
        for (int alt = 1; alt < nen[i - from]; alt++) {
            s->pos[s->n] = i;
            s->alt[s->n] = alt;
            s->n++;
            explore(calls, fails, s, depth + 1, cost, bound, t_end);
            s->n--;
        }
    }
    free(nen);
    free(run);
}
static void explore_program(const int *calls, int nt, const long *fails, int bound) {
    nthr = nt;
    for (int t = 0; t < nt; t++) {
        T[t].call = &ALPHA[calls[t]];
        T[t].fail_at = fails[t];
        T[t].stride = stride_of(calls[t]);
    }
    memset(&tally, 0, sizeof tally);
    explore_failed = 0;
    Sched s;
    memset(&s, 0, sizeof s);
    explore(calls, fails, &s, 0, 0, bound, mc_now() + 100);
    mc_max(1, (double)tally.nsched);
    if (getenv("C18_VERBOSE")) fprintf(stderr, "program %s | %s : %" PRIu64 " schedules, max %" PRIu64 " choice points, %d outcomes\n", ALPHA[calls[0]].name, ALPHA[calls[1]].name, tally.nsched, tally.maxpts, tally.noutcomes);
    mc_ctr(10, tally.noutcomes);
    mc_trans(tally.nsched * nt);
    mc_states(tally.nsched);
    if (tally.nontrivial_execs) mc_nontrivial();
}
static void op_pairs(const McArg *a) {
    int calls[3] = {(int)a[0].i, (int)a[1].i, 0};
    long fails[3] = {0, 0, 0};
    gran = (int)a[3].i;
    explore_program(calls, 2, fails, (int)a[2].i);
}
static void op_triple(const McArg *a) {
    int calls[3] = {(int)a[0].i, (int)a[1].i, (int)a[2].i};
    long fails[3] = {0, 0, 0};
    gran = (int)a[4].i;
    explore_program(calls, 3, fails, (int)a[3].i);
}
// pair with allocation fidx of thread ft failing
static void op_pairf(const McArg *a) {
    int calls[3] = {(int)a[0].i, (int)a[1].i, 0};
    long fails[3] = {0, 0, 0};
    int ft = (int)a[2].i;
    fails[ft] = a[3].i;
    gran = (int)a[5].i;
    ref_run(&ALPHA[calls[ft]], fails[ft], &ref_tmp);
    mc_ctr(9, 1);
    explore_program(calls, 2, fails, (int)a[4].i);
}
// replay of exactly one schedule
static void op_sched1(const McArg *a) {
    int calls[3] = {(int)a[0].i, (int)a[1].i, (int)a[2].i};
    long fails[3] = {0, 0, 0};
    int nt = calls[2] >= 0 ? 3 : 2;
    if (calls[2] < 0) calls[2] = 0;
    if (a[3].i >= 0) {
        fails[a[3].i] = a[4].i;
        ref_run(&ALPHA[calls[a[3].i]], a[4].i, &ref_tmp);
    }
    Sched s;
    memset(&s, 0, sizeof s);
    s.n = (int)(a[5].i & 255);
    gran = (int)(a[5].i >> 8) & 1;
    for (int i = 0; i < s.n && i < 4; i++) s.pos[i] = (int)(a[6 + i].i >> 8), s.alt[i] = (int)(a[6 + i].i & 255);
    nthr = nt;
    for (int t = 0; t < nt; t++) T[t].call = &ALPHA[calls[t]], T[t].fail_at = fails[t], T[t].stride = stride_of(calls[t]);
    memset(&tally, 0, sizeof tally);
    int n = run_sched(&s);
    char msg[400];
    mc_trans(nt);
    if (judge(calls, fails, msg, sizeof msg)) mc_fail("%s [schedule of %d choice points]", msg, n);
    // determinism: the same schedule twice gives identical observations
    uint64_t h1 = 0;
    for (int t = 0; t < nt; t++) h1 = fnv(T[t].out.b, T[t].out.len, h1);
    run_sched(&s);
    uint64_t h2 = 0;
    for (int t = 0; t < nt; t++) h2 = fnv(T[t].out.b, T[t].out.len, h2);
    if (h1 != h2) mc_fail("the same schedule replayed twice gave different observations");
}
// ---- history independence: q after p == q fresh
static void stack_poison(unsigned char pat) {
    volatile unsigned char buf[48 * 1024];
    for (size_t i = 0; i < sizeof buf; i += 1) buf[i] = pat;
}
static void op_hist(const McArg *a) {
    int p = (int)a[0].i, q = (int)a[1].i;
    static Out o;
    if (!o.b) o_init(&o, 1 << 20);
    for (int rep = 0; rep < 2; rep++) {
        lg_reset();
        lg_poison = rep ? 0x00 : 0xA5;
        stack_poison(rep ? 0xFF : 0x5A);
        o.len = 0;
        prep_exec(&ALPHA[p], &o);
        if (o.len != REF[p].len || memcmp(o.b, REF[p].b, o.len)) mc_fail("%s differs from its fresh-process reference (poison pass %d)", ALPHA[p].name, rep);
        lg_poison = rep ? 0xA5 : 0xFF;
        stack_poison(rep ? 0x00 : 0xA5);
        o.len = 0;
        prep_exec(&ALPHA[q], &o);
        mc_trans(2);
        mc_ctr(7, 1);
        if (o.len != REF[q].len || memcmp(o.b, REF[q].b, o.len)) {
            size_t k = 0;
            while (k < o.len && k < REF[q].len && o.b[k] == REF[q].b[k]) k++;
            mc_fail("%s executed after %s differs from the same call executed first in a fresh process at byte %zu (poison pass %d)", ALPHA[q].name,
                    ALPHA[p].name, k, rep);
        }
        if (lg_live || lg_errors) mc_fail("ledger not empty after %s ; %s: %ld live, %ld bad frees", ALPHA[p].name, ALPHA[q].name, lg_live, lg_errors);
    }
    lg_poison = 0xA5;
    mc_nontrivial();
}
const McOp MC_OPS[] = {{"pairs", "iiii", op_pairs}, {"triple", "iiiii", op_triple}, {"pairf", "iiiiii", op_pairf}, {"sched", "iiiiiiiiii", op_sched1}, {"hist", "ii", op_hist}};
const int MC_NOPS = sizeof MC_OPS / sizeof *MC_OPS;

typedef struct {
    int bound, gran;
    double maxprod;  // only programs whose estimated exploration cost (schedules x execution time, seconds) is <= maxprod (0 = all)
} PairPlan;
// estimated cost in seconds of exploring a program: number of schedules within the bound x time of one execution
static double est_cost(const int *calls, int nt, int bound, int g) {
    double p[3], tsum = 0, sum = 0, prod2 = 0;
    for (int t = 0; t < nt; t++) p[t] = (double)pts_of(calls[t], g), tsum += REF_TIME[calls[t]] + 3e-5, sum += p[t];
    for (int a = 0; a < nt; a++)
        for (int b = 0; b < nt; b++)
            if (a != b) prod2 += p[a] * p[b];
    double ns = nt;
    if (bound >= 1) ns += nt * sum;
    if (bound >= 2) ns += nt * prod2;
    if (bound >= 3) ns += nt * prod2 * sum / 2;
    return ns * tsum;
}
static void ph_hist(void *arg) {
    (void)arg;
    uint64_t n = 0;
    for (int p = 0; p < NALPHA; p++)
        for (int q = 0; q < NALPHA; q++, n++)
            if (mc_mine(n)) MC_RUN(OP_HIST, I(p), I(q));
}
static void ph_pairs_b(void *arg) {
    PairPlan *pl = arg;
    uint64_t n = 0;
    for (int i = 0; i < NALPHA; i++)
        for (int j = i; j < NALPHA; j++) {
            int cc[2] = {i, j};
            if (pl->maxprod > 0 && est_cost(cc, 2, pl->bound, pl->gran) > pl->maxprod) continue;
            if (!mc_mine(n++)) continue;
            if (mc_expired()) return;
            MC_RUN(OP_PAIRS, I(i), I(j), I(pl->bound), I(pl->gran));
        }
}
static void ph_triples(void *arg) {
    PairPlan *pl = arg;
    uint64_t n = 0;
    for (int i = 0; i < NCORE; i++)
        for (int j = i; j < NCORE; j++)
            for (int k = j; k < NCORE; k++) {
                int cc[3] = {CORE[i], CORE[j], CORE[k]};
                if (pl->maxprod > 0 && est_cost(cc, 3, pl->bound, pl->gran) > pl->maxprod) continue;
                if (!mc_mine(n++)) continue;
                if (mc_expired()) return;
                MC_RUN(OP_TRIPLE, I(CORE[i]), I(CORE[j]), I(CORE[k]), I(pl->bound), I(pl->gran));
            }
}
static void ph_faults(void *arg) {
    PairPlan *pl = arg;
    uint64_t n = 0;
    for (int i = 0; i < NALPHA; i++) {
        if (!REF_NALLOC[i] || ALPHA[i].kind == K_MULTI) continue;  // cellsToLinkedMultiPolygon asserts on allocation failure (outside C17's list)
        for (int j = 0; j < NALPHA; j++) {
            if (!REF_NALLOC[j] && (j % 5)) continue;  // partner: every allocating call and every 5th other call
            int cc[2] = {i, j};
            if (pl->maxprod > 0 && est_cost(cc, 2, pl->bound, pl->gran) > pl->maxprod) continue;
            for (long f = 1; f <= REF_NALLOC[i] && f <= 12; f++) {
                if (!mc_mine(n++)) continue;
                if (mc_expired()) return;
                MC_RUN(OP_PAIRF, I(i), I(j), I(0), I(f), I(pl->bound), I(pl->gran));
            }
        }
    }
}
int main(int argc, char **argv) {
    if ((long)(__stop_h3data - __start_h3data) < 8 + LIBDATA || (long)(__stop_h3bss - __start_h3bss) < 8 + LIBBSS) {
        fprintf(stderr, "HARNESS ERROR: the library's writable sections were not gathered into h3data/h3bss\n");
        return 2;
    }
    base_hash = static_hash();  // before the first library call
    mc_defer_replay = 1;
    mc_init(argc, argv);
    mc_case_limit = 400;
    build_alphabet();
    o_init(&ref_tmp, 1 << 20);
    // references: each call executed first in a fresh process (forked child), result shipped back through shared memory; executed
    // twice (different heap poison) to make sure the reference itself is deterministic
    for (int i = 0; i < NALPHA; i++) {
        uint8_t *sh = mc_shalloc(1 << 20);
        size_t *shlen = mc_shalloc(4096);
        for (int rep = 0; rep < 2; rep++) {
            fflush(stdout);
            pid_t p = fork();
            if (p == 0) {
                Out o;
                o_init(&o, 1 << 20);
                lg_poison = rep ? 0x3C : 0xA5;
                lg_reset();
                prep_exec(&ALPHA[i], &o);
                if (o.overflow) _exit(3);
                memcpy(sh, o.b, o.len);
                shlen[0] = o.len;
                shlen[1] = lg_nalloc;
                shlen[2] = lg_live;
                // scheduling points of this call alone, at both granularities (threads are created in this child only)
                for (int g = 0; g < 2; g++) {
                    gran = g;
                    ref_run(&ALPHA[i], 0, &ref_tmp);
                    shlen[3 + g] = T[0].npoints;
                }
                gran = 0;
                double tt = mc_now();
                for (int k = 0; k < 3; k++) ref_run(&ALPHA[i], 0, &ref_tmp);
                ((double *)shlen)[8] = (mc_now() - tt) / 3;
                _exit(0);
            }
            int st;
            waitpid(p, &st, 0);
            if (!(WIFEXITED(st) && WEXITSTATUS(st) == 0)) {
                if (mc_replaying) continue;
                mkdir("replay", 0777);
                mkdir("replay/C18", 0777);
                FILE *f = fopen("/verif/replay/C18/reference.json", "w");
                if (f) {
                    fprintf(f, "{\n \"property\": \"C18\",\n \"part\": \"sched\",\n \"case\": \"hist i:%d i:%d\",\n \"message\": \"sequential reference run died\"\n}\n", i, i);
                    fclose(f);
                }
                printf("VIOLATION property=C18 replay=/verif/replay/C18/reference.json\n  sequential reference run of %s died (status 0x%x)\n", ALPHA[i].name, st);
                return 1;
            }
            if (rep == 0) {
                o_init(&REF[i], shlen[0] + 16);
                o_put(&REF[i], sh, shlen[0]);
                REF_NALLOC[i] = shlen[1];
                REF_PTS[i][0] = shlen[3];
                REF_PTS[i][1] = shlen[4];
                REF_TIME[i] = ((double *)shlen)[8];
            } else if (REF[i].len != shlen[0] || memcmp(REF[i].b, sh, shlen[0])) {
                fprintf(stderr, "HARNESS ERROR: reference of %s is not deterministic\n", ALPHA[i].name);
                return 2;
            }
        }
        munmap(sh, 1 << 20);
        munmap(shlen, 4096);
        if (getenv("C18_VERBOSE")) fprintf(stderr, "alphabet %2d %-60s out %6zu bytes, %3ld allocs, points fine %7ld coarse %4ld, %.2f ms\n", i, ALPHA[i].name, REF[i].len, REF_NALLOC[i], REF_PTS[i][0], REF_PTS[i][1], REF_TIME[i] * 1e3);
    }
    // core alphabet for triples: the first call of each kind
    {
        int seen[K_NKINDS] = {0};
        for (int i = 0; i < NALPHA && NCORE < (mc_thorough ? 10 : 8); i++)
            if (!seen[ALPHA[i].kind]) {
                seen[ALPHA[i].kind] = 1;
                CORE[NCORE++] = i;
            }
    }
    PMAX = mc_thorough ? 1500 : 150;
    {
        const char *e = getenv("C18_PMAX");
        if (e && *e) PMAX = atol(e);
    }
    if (mc_replaying_file) return mc_do_replay(mc_replaying_file);
    // cost caps (estimated seconds per program); 0 = no cap
    PairPlan fine1 = {1, 0, 0}, coarse2 = {mc_thorough ? 3 : 2, 1, mc_thorough ? 30 : 1.5}, fine2 = {2, 0, mc_thorough ? 30 : 1.0};
    PairPlan tri_c = {2, 1, mc_thorough ? 10 : 3}, tri_f = {1, 0, mc_thorough ? 10 : 3}, fl_c = {mc_thorough ? 2 : 1, 1, mc_thorough ? 5 : 0.5}, fl_f = {1, 0, mc_thorough ? 5 : 0.3};
    int nf2 = 0;
    for (int i = 0; i < NALPHA; i++)
        for (int j = i; j < NALPHA; j++)
        {
            int cc[2] = {i, j};
            if (est_cost(cc, 2, 2, 0) <= fine2.maxprod) nf2++;
        }
    snprintf(mc_bounds, sizeof mc_bounds,
             "alphabet %d calls (%d unordered pairs incl. i=i). fine granularity = every library function entry (strided to about %ld points per call: every s-th entry, s = ceil(entries/%ld)) + API entry + allocator call; coarse = API "
             "call entry/exit + allocator call. pairs: fine <=1 preemption ALL pairs (visits every state and every transition of the product of "
             "the two threads' point sequences); coarse <=%d preemptions for pairs with estimated cost <= %.2f s; fine <=2 preemptions for the %d pairs with estimated cost "
             "<= %.2f s; triples over %d core calls: coarse <=2, fine <=1; allocation fault x schedule: every allocation index (<=12) of every "
             "allocating call (except cellsToLinkedMultiPolygon) x partners: coarse <=2, fine <=1; history: all %d ordered pairs x 2 poison passes. "
             "Library-owned static storage (%ld bytes) is hashed at every choice point.",
             NALPHA, NALPHA * (NALPHA + 1) / 2, PMAX, PMAX, coarse2.bound, coarse2.maxprod, nf2, fine2.maxprod, NCORE, NALPHA * NALPHA,
             (long)((__stop_h3data - __start_h3data) + (__stop_h3bss - __start_h3bss)) - 16);
    mc_phase("history: all ordered pairs", ph_hist, NULL);
    mc_phase("schedules: all pairs, fine, <=1 preemption", ph_pairs_b, &fine1);
    mc_phase("schedules: all pairs, coarse, <=2(3) preemptions", ph_pairs_b, &coarse2);
    mc_phase("schedules: small pairs, fine, <=2 preemptions", ph_pairs_b, &fine2);
    mc_phase("schedules x allocation faults, coarse, <=2", ph_faults, &fl_c);
    mc_phase("schedules x allocation faults, fine, <=1", ph_faults, &fl_f);
    mc_phase("schedules: core triples, coarse, <=2", ph_triples, &tri_c);
    mc_phase("schedules: core triples, fine, <=1", ph_triples, &tri_f);
    return mc_finish();
}
#endif

// ================================================================================================ TSAN part
#if defined(C18_TSAN)
enum { OP_FREE };
typedef struct {
    int id, n, rot;
    Out out;
    int bad;
    char msg[200];
} FT;
static void *free_main(void *arg) {
    FT *t = arg;
    for (int s = 0; s < NALPHA; s++) {
        int c = (t->rot + t->id * 7 + s) % NALPHA;
        t->out.len = 0;
        prep_exec(&ALPHA[c], &t->out);
        if (!t->bad && (t->out.len != REF[c].len || memcmp(t->out.b, REF[c].b, REF[c].len))) {
            t->bad = 1;
            snprintf(t->msg, sizeof t->msg, "thread %d: %s differs from the sequential reference", t->id, ALPHA[c].name);
        }
    }
    return NULL;
}
static void op_free(const McArg *a) {
    int n = (int)a[0].i, rot = (int)a[1].i;
    static FT ft[16];
    pthread_t th[16];
    for (int i = 0; i < n; i++) {
        ft[i].id = i, ft[i].n = n, ft[i].rot = rot, ft[i].bad = 0;
        if (!ft[i].out.b) o_init(&ft[i].out, 1 << 20);
        pthread_create(&th[i], NULL, free_main, &ft[i]);
    }
    for (int i = 0; i < n; i++) pthread_join(th[i], NULL);
    mc_trans((uint64_t)n * NALPHA);
    mc_ctr(13, n);
    mc_nontrivial();
    for (int i = 0; i < n; i++)
        if (ft[i].bad) mc_fail("%s", ft[i].msg);
    if (lg_live || lg_errors) mc_fail("ledger after free-running threads: %ld live, %ld bad frees", lg_live, lg_errors);
    lg_reset();
}
const McOp MC_OPS[] = {{"free", "iii", op_free}};
const int MC_NOPS = 1;
static void ph_free(void *arg) {
    (void)arg;
    int ns[] = {2, 4, 16};
    uint64_t k = 0;
    int reps = mc_thorough ? 20 : 4;
    for (int ni = 0; ni < 3; ni++)
        for (int rep = 0; rep < reps; rep++, k++) {
            if (!mc_mine(k)) continue;
            if (mc_expired()) return;
            MC_RUN(OP_FREE, I(ns[ni]), I(rep * 5), I(rep));
        }
}
int main(int argc, char **argv) {
    mc_defer_replay = 1;
    mc_init(argc, argv);
    build_alphabet();
    for (int i = 0; i < NALPHA; i++) {
        o_init(&REF[i], 1 << 20);
        prep_exec(&ALPHA[i], &REF[i]);
    }
    lg_reset();
    if (mc_replaying_file) return mc_do_replay(mc_replaying_file);
    snprintf(mc_bounds, sizeof mc_bounds, "free-running: N in {2,4,16} threads x %d rotations, every thread executes all %d alphabet calls; clang -fsanitize=thread",
             mc_thorough ? 20 : 4, NALPHA);
    mc_nw = 4;  // 4 worker processes x up to 16 threads
    mc_phase("tsan: free-running threads", ph_free, NULL);
    return mc_finish();
}
#endif
