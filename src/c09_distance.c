// BUILD: variant=opt
// C09 -- gridDistance is the true graph distance; local IJ is a consistent partial chart.
#include <fenv.h>
#include "mc.h"
#include "dom.h"
#include "dgraph.h"

const char *MC_PROPERTY = "C09";
const char *MC_RULE =
    "from(a): BFS from a over the complete geometric graph of a's resolution; for EVERY cell b of that resolution gridDistance(a,b), "
    "when it succeeds, equals the BFS distance (hence symmetric), must succeed with 0 for b=a and with 1 for every graph edge; "
    "cellToLocalIj(a,b) followed by localIjToCell returns b wherever both succeed (violations keyed as dist(a,b) / ij(a,b)). "
    "ball(a,R): same on the on-demand graph for every b within R steps at fine resolutions, plus every (i,j) in the square of side "
    "2R+1 around a's own IJ (localIjToCell then cellToLocalIj gives (i,j) back, results are valid cells of a's resolution), plus unit "
    "IJ steps between adjacent cells when the ball contains no pentagon. ijx(a,i,j,mode): extreme coordinates / modes never crash, "
    "succeed only with valid cells, non-zero mode gives E_OPTION_INVALID. mism(a): differing resolutions give E_RES_MISMATCH. "
    "Non-trivial: the pair's BFS ball contains a pentagon or b lies in another base cell.";
const char *MC_ASSUME[] = {"G_geo (src/geo.h, dgraph.h) verified symmetric with degree 6/5 before use; cells where that fails are excluded and counted", NULL};
const char *MC_CTR_NAMES[] = {"oracle_unavailable", "pairs", "distance_success", "distance_refused", "ij_roundtrips", "ij_square_points", "unit_step_edges", "longest_distance_seen", NULL};
const char *MC_MAX_NAMES[] = {"longest_successful_distance", NULL};
#define CANARY 0xC0FFEE0DDEADBEEFull
enum { OP_FROM, OP_DIST, OP_IJ, OP_BALL, OP_IJX, OP_MISM, OP_SQ, OP_MISMX };

static int16_t *bd16;
static int32_t *bq;
static int64_t bn;
static void bfs_buf(int64_t n) {
    if (n > bn) {
        bd16 = realloc(bd16, n * 2);
        bq = realloc(bq, n * 4);
        bn = n;
    }
}
// check one pair against BFS distance d (>= 0); returns 0 on violation
static int check_pair(uint64_t a, uint64_t b, int d, int doij) {
    int64_t out = -77;
    mc_ctr(1, 1);
    mc_trans(1);
    H3Error e = gridDistance(a, b, &out);
    McArg args[2] = {H(a), H(b)};
    if (e == 0) {
        mc_ctr(2, 1);
        mc_max(0, (double)out);
        if (out != d) {
            MC_FAIL_AS(OP_DIST, 2, args, "gridDistance(%" PRIx64 ",%" PRIx64 ") = %" PRId64 " but the cells are %d neighbour steps apart", a, b, out, d);
            return 0;
        }
    } else {
        mc_ctr(3, 1);
        if (e > 15 || d <= 1) {
            MC_FAIL_AS(OP_DIST, 2, args, "gridDistance(%" PRIx64 ",%" PRIx64 ") returned %d for cells %d steps apart (must succeed for identical and neighbouring cells)", a, b, e, d);
            return 0;
        }
    }
    if (doij) {
        CoordIJ ij;
        mc_trans(1);
        if (cellToLocalIj(a, b, 0, &ij) == 0) {
            uint64_t back = CANARY;
            mc_trans(1);
            H3Error e2 = localIjToCell(a, &ij, 0, &back);
            mc_ctr(4, 1);
            if (e2 == 0 && back != b) {
                MC_FAIL_AS(OP_IJ, 2, args, "cellToLocalIj(%" PRIx64 ",%" PRIx64 ") = (%d,%d) but localIjToCell gives %" PRIx64, a, b, ij.i, ij.j, back);
                return 0;
            }
        }
    }
    return 1;
}
static void op_from(const McArg *a) {
    uint64_t h = a[0].u;
    int res = spec_res(h);
    DGraph *g = dg_get(res);
    if (*g->nbad) {
        mc_ctr(0, 1);
        return;
    }
    bfs_buf(g->n);
    int32_t src = (int32_t)spec_cell_id(h);
    int64_t reached = dg_bfs(g, src, bd16, bq);
    MC_CHECK(reached == g->n, "geometric graph of resolution %d is not connected from %" PRIx64 " (harness/oracle)", res, h);
    if (spec_is_pent_bc(spec_bc(h))) mc_nontrivial();
    for (int64_t i = 0; i < g->n; i++) {
        uint64_t b = spec_cell_at(res, i);
        if (!check_pair(h, b, bd16[i], res <= 2 || bd16[i] <= 6)) return;
    }
    mc_states(g->n);
}
static void op_dist(const McArg *a) {
    uint64_t h = a[0].u, b = a[1].u;
    int res = spec_res(h);
    mc_nontrivial();
    if (res > 5 || spec_res(b) != res || !spec_valid(h) || !spec_valid(b)) return;
    DGraph *g = dg_get(res);
    bfs_buf(g->n);
    dg_bfs(g, (int32_t)spec_cell_id(h), bd16, bq);
    check_pair(h, b, bd16[spec_cell_id(b)], 1);
}
static void op_ij(const McArg *a) { op_dist(a); }

static OGraph G;
static int G_init;
#define MAXB 4096
static uint64_t ballc[MAXB];
static int balld[MAXB];
// IJ square around the origin's own coordinates: back-then-forward (ij -> cell -> ij)
static void ij_square(uint64_t h, int R) {
    CoordIJ o;
    MC_CHECK(cellToLocalIj(h, h, 0, &o) == 0, "cellToLocalIj(%" PRIx64 ", itself) failed", h);
    for (int di = -R; di <= R; di++)
        for (int dj = -R; dj <= R; dj++) {
            CoordIJ ij = {o.i + di, o.j + dj}, back;
            uint64_t c = CANARY;
            mc_trans(2);
            mc_ctr(5, 1);
            H3Error e = localIjToCell(h, &ij, 0, &c);
            if (e) {
                MC_CHECK(e <= 15, "localIjToCell returned undocumented code %d", e);
                continue;
            }
            MC_CHECK(spec_valid(c) && spec_res(c) == spec_res(h), "localIjToCell(%" PRIx64 ",(%d,%d)) = %" PRIx64 " is not a valid cell of the origin's resolution", h, ij.i, ij.j, c);
            if (cellToLocalIj(h, c, 0, &back) == 0)
                MC_CHECK(back.i == ij.i && back.j == ij.j, "localIjToCell(%" PRIx64 ",(%d,%d)) = %" PRIx64 " but cellToLocalIj of that cell is (%d,%d)", h, ij.i, ij.j, c, back.i, back.j);
            // the caller's floating-point rounding mode is environment, like errno: these integer-valued functions must not depend on it
            if (((di ^ dj) & 3) == 0) {
                static const int modes[3] = {FE_UPWARD, FE_DOWNWARD, FE_TOWARDZERO};
                for (int m = 0; m < 3; m++) {
                    uint64_t c2 = CANARY;
                    CoordIJ b2 = {0, 0};
                    fesetround(modes[m]);
                    H3Error e2 = localIjToCell(h, &ij, 0, &c2), e3 = cellToLocalIj(h, c, 0, &b2);
                    fesetround(FE_TONEAREST);
                    mc_trans(2);
                    MC_CHECK(e2 == 0 && c2 == c, "localIjToCell(%" PRIx64 ",(%d,%d)) = %d,%" PRIx64 " under rounding mode %d but %" PRIx64 " under round-to-nearest", h, ij.i, ij.j, e2, c2, modes[m], c);
                    MC_CHECK(e3 != 0 || (b2.i == ij.i && b2.j == ij.j), "cellToLocalIj(%" PRIx64 ",%" PRIx64 ") = (%d,%d) under rounding mode %d, (%d,%d) expected", h, c, b2.i, b2.j, modes[m], ij.i, ij.j);
                }
            }
        }
}
static void op_sq(const McArg *a) {
    if (spec_is_pent_bc(spec_bc(a[0].u))) mc_nontrivial();
    ij_square(a[0].u, (int)a[1].i);
}
// mixed-resolution pairs on arbitrary base cells: E_RES_MISMATCH is required whatever the two cells are
static void op_mismx(const McArg *a) {
    uint64_t h = a[0].u;
    int r2 = (int)a[1].i;
    static U64Vec other[4];
    if (r2 < 0 || r2 > 2 || spec_res(h) == r2) return;
    if (!other[r2].n) dom_full(r2, &other[r2]);
    mc_nontrivial();
    for (size_t i = 0; i < other[r2].n; i++) {
        int64_t d = -77;
        mc_trans(2);
        H3Error e = gridDistance(h, other[r2].v[i], &d);
        MC_CHECK(e == E_RES_MISMATCH, "gridDistance(%" PRIx64 ",%" PRIx64 ") with differing resolutions returned %d (out %" PRId64 ")", h, other[r2].v[i], e, d);
        e = gridDistance(other[r2].v[i], h, &d);
        MC_CHECK(e == E_RES_MISMATCH, "gridDistance(%" PRIx64 ",%" PRIx64 ") with differing resolutions returned %d", other[r2].v[i], h, e);
    }
}
static void op_ball(const McArg *a) {
    uint64_t h = a[0].u;
    int R = (int)a[1].i;
    if (!G_init) og_init(&G, 1 << 16), G_init = 1;
    if (G.n > 3000000) og_clear(&G);
    int n = og_ball(&G, h, R, ballc, balld, MAXB);
    if (n < 0) {
        mc_ctr(0, 1);
        return;
    }
    int pent = 0;
    for (int i = 0; i < n; i++) pent |= spec_is_pentagon(ballc[i]);
    if (pent || spec_bc(ballc[n - 1]) != spec_bc(h)) mc_nontrivial();
    // symmetric sanity on the ball's interior edges is implied by BFS layering; distances:
    CoordIJ ijs[MAXB];
    char has[MAXB];
    for (int i = 0; i < n; i++) {
        if (!check_pair(h, ballc[i], balld[i], 1)) return;
        has[i] = cellToLocalIj(h, ballc[i], 0, &ijs[i]) == 0;
    }
    mc_states(n);
    // unit steps between adjacent cells when no pentagon in the ball
    if (!pent) {
        for (int i = 0; i < n; i++) {
            if (!has[i] || balld[i] >= R) continue;
            uint64_t nb[8];
            int m = og_nbrs(&G, ballc[i], nb);
            for (int k = 0; k < m; k++) {
                ONode *nd = og_get(&G, nb[k]);
                if (nd->mark != G.epoch) continue;
                CoordIJ q;
                if (cellToLocalIj(h, nb[k], 0, &q)) continue;
                int di = q.i - ijs[i].i, dj = q.j - ijs[i].j;
                int unit = (di == 1 && dj == 0) || (di == 0 && dj == 1) || (di == 1 && dj == 1) || (di == -1 && dj == 0) || (di == 0 && dj == -1) || (di == -1 && dj == -1);
                mc_ctr(6, 1);
                MC_CHECK(unit, "adjacent cells %" PRIx64 " and %" PRIx64 " have local IJ (%d,%d) and (%d,%d) about origin %" PRIx64 ": not a unit step", ballc[i], nb[k], ijs[i].i, ijs[i].j, q.i, q.j, h);
            }
        }
    }
    ij_square(h, R);
}
static void op_ijx(const McArg *a) {
    uint64_t h = a[0].u;
    CoordIJ ij = {(int)a[1].i, (int)a[2].i}, back;
    uint32_t mode = (uint32_t)a[3].i;
    uint64_t c = CANARY;
    mc_nontrivial();
    mc_trans(1);
    H3Error e = localIjToCell(h, &ij, mode, &c);
    if (mode) {
        MC_CHECK(e == E_OPTION_INVALID, "localIjToCell(mode %u) returned %d, expected E_OPTION_INVALID", mode, e);
        CoordIJ q = {7, 7};
        e = cellToLocalIj(h, h, mode, &q);
        MC_CHECK(e == E_OPTION_INVALID, "cellToLocalIj(mode %u) returned %d, expected E_OPTION_INVALID", mode, e);
        return;
    }
    MC_CHECK(e <= 15, "localIjToCell returned undocumented code %d", e);
    if (e) return;  // a refusal is allowed; the property constrains only successful results
    MC_CHECK(spec_valid(c) && spec_res(c) == spec_res(h), "localIjToCell(%" PRIx64 ",(%d,%d)) = %" PRIx64 " is not a valid cell of the origin's resolution", h, ij.i, ij.j, c);
    if (cellToLocalIj(h, c, 0, &back) == 0)
        MC_CHECK(back.i == ij.i && back.j == ij.j, "localIjToCell(%" PRIx64 ",(%d,%d)) = %" PRIx64 " but cellToLocalIj of that cell is (%d,%d)", h, ij.i, ij.j, c, back.i, back.j);
}
static void op_mism(const McArg *a) {
    uint64_t h = a[0].u;
    int res = spec_res(h);
    mc_nontrivial();
    for (int r = 0; r <= 15; r++) {
        if (r == res) continue;
        uint64_t o;
        if (r < res)
            o = spec_parent(h, r);
        else if (cellToCenterChild(h, r, &o))
            continue;
        int64_t d = -77;
        mc_trans(2);
        H3Error e = gridDistance(h, o, &d);
        MC_CHECK(e == E_RES_MISMATCH, "gridDistance(%" PRIx64 ",%" PRIx64 ") with differing resolutions returned %d (out %" PRId64 ")", h, o, e, d);
        e = gridDistance(o, h, &d);
        MC_CHECK(e == E_RES_MISMATCH, "gridDistance(%" PRIx64 ",%" PRIx64 ") with differing resolutions returned %d", o, h, e);
    }
}
const McOp MC_OPS[] = {{"from", "h", op_from}, {"dist", "hh", op_dist}, {"ij", "hh", op_ij}, {"ball", "hi", op_ball}, {"ijx", "hiii", op_ijx}, {"mism", "h", op_mism}, {"sq", "hi", op_sq}, {"mismx", "hi", op_mismx}};
const int MC_NOPS = 8;

static int g_res;
static void ph_from(void *u) {
    int64_t N = spec_numcells(g_res);
    for (int64_t i = mc_wid; i < N; i += mc_nw) {
        if (mc_expired()) return;
        MC_RUN(OP_FROM, H(spec_cell_at(g_res, i)));
    }
}
static U64Vec g_dom;
static int g_R;
static void ph_from_dom(void *u) {
    for (size_t i = mc_wid; i < g_dom.n; i += mc_nw) {
        if (mc_expired()) return;
        MC_RUN(OP_FROM, H(g_dom.v[i]));
    }
}
static void ph_ball(void *u) {
    size_t lo = g_dom.n * mc_wid / mc_nw, hi = g_dom.n * (mc_wid + 1) / mc_nw;
    for (size_t i = lo; i < hi; i++) {
        if (mc_tick(15)) return;
        MC_RUN(OP_BALL, H(g_dom.v[i]), I(g_R));
        if (i % 16 == 0) MC_RUN(OP_MISM, H(g_dom.v[i]));
    }
}
static void ph_sq(void *u) {
    int64_t N = spec_numcells(g_res);
    int R = g_res == 0 ? 3 : 8;
    for (int64_t i = mc_wid; i < N; i += mc_nw) {
        if (mc_expired()) return;
        MC_RUN(OP_SQ, H(spec_cell_at(g_res, i)), I(R));
    }
}
static void ph_mismx(void *u) {
    uint64_t idx = 0;
    for (int r = 0; r <= 2; r++) {
        int64_t N = spec_numcells(r);
        for (int64_t i = 0; i < N; i += (r == 2 ? 7 : 1))
            for (int r2 = 0; r2 <= 2; r2++, idx++) {
                if (r2 == r || !mc_mine(idx)) continue;
                if (mc_expired()) return;
                MC_RUN(OP_MISMX, H(spec_cell_at(r, i)), I(r2));
            }
    }
}
static void ph_ijx(void *u) {
    // extreme coordinates: the int32 limits, and the multiples k*2^31/7 (rounded both ways, both signs) around which 3i-j, 2i+j ... of the
    // aperture-7 up-moves wrap modulo 2^32
    static int64_t xs[64];
    static int nx;
    if (!nx) {
        static const int64_t base[] = {INT_MIN, INT_MIN + 1, -1000000, -1, 0, 1, 7, 1000000, INT_MAX / 3, INT_MAX - 1, INT_MAX};
        for (int i = 0; i < 11; i++) xs[nx++] = base[i];
        for (int k = 1; k <= 6; k++) {
            int64_t v = (int64_t)k * 2147483648LL / 7;
            xs[nx++] = v, xs[nx++] = v + 1, xs[nx++] = -v, xs[nx++] = -v - 1;
        }
    }
    static const int64_t modes[] = {0, 1, 7, 2147483648LL};
    uint64_t idx = 0;
    for (size_t c = 0; c < g_dom.n; c++)
        for (int i = 0; i < nx; i++)
            for (int j = 0; j < nx; j++)
                for (int m = 0; m < 4; m++, idx++) {
                    if (!mc_mine(idx)) continue;
                    if (m && (i > 1 || j > 1)) continue;
                    MC_RUN(OP_IJX, H(g_dom.v[c]), I(xs[i]), I(xs[j]), I(modes[m]));
                }
}
int main(int argc, char **argv) {
    mc_init(argc, argv);
    int fullmax = mc_thorough ? 3 : 2;
    g_R = mc_thorough ? 8 : 5;
    snprintf(mc_bounds, sizeof mc_bounds,
             "all ordered pairs of FULL(0..%d) (quick: plus every origin of the 12 pentagon base cells at resolution 3 x all cells); balls of radius %d around FINE level %d origins at resolutions %d..15 with the (2R+1)^2 IJ square; "
             "extreme IJ (int32 limits and k*2^31/7 wrap points) x modes on IDX base cells; IJ squares of side 17 from every origin of the complete resolutions and the next one; "
             "mixed-resolution pairs FULL(a) x FULL(b), a != b <= 2, both orders",
             fullmax, g_R, mc_thorough ? 1 : 2, fullmax + 1);
    for (g_res = 0; g_res <= fullmax; g_res++) {
        dg_build_parallel(g_res);
        char nm[64];
        snprintf(nm, sizeof nm, "all ordered pairs of FULL(%d)", g_res);
        mc_phase(nm, ph_from, NULL);
    }
    if (!mc_thorough) {
        // quick: resolution 3 from every origin inside the 12 pentagon base cells (to every cell of the globe)
        dg_build_parallel(3);
        dom_pent(3, 3, &g_dom);
        mc_phase("PENT(3,3) origins x all of FULL(3)", ph_from_dom, NULL);
        g_dom.n = 0;
    }
    for (int r = fullmax + 1; r <= 15; r++) {
        if (mc_thorough)
            dom_fine_raw(r, 1, &g_dom);
        else
            dom_fine_raw(r, 2, &g_dom);
    }
    uv_sortuniq(&g_dom);
    mc_phase("balls at fine resolutions", ph_ball, NULL);
    g_dom.n = 0;
    dom_idx_bases(1, &g_dom);
    mc_phase("extreme IJ and modes", ph_ijx, NULL);
    for (g_res = 0; g_res <= fullmax + 1; g_res++) {
        char nm[64];
        snprintf(nm, sizeof nm, "IJ squares (ij->cell->ij) from every origin of FULL(%d)", g_res);
        mc_phase(nm, ph_sq, NULL);
    }
    mc_phase("mixed-resolution pairs over all base cells", ph_mismx, NULL);
    return mc_finish();
}
