// spec.h -- SPEC-IDX: the documented 64-bit H3 index layout written as loops over digits.
// Constants transcribed from website/docs/library/index/cell.md and restable.md, not from headers.
// Nothing here calls the library.
#ifndef SPEC_H
#define SPEC_H
#include <stdint.h>
#include <string.h>

typedef unsigned __int128 u128;

static const int SPEC_PENT_BC[12] = {4, 14, 24, 38, 49, 58, 63, 72, 83, 97, 107, 117};
static inline int spec_is_pent_bc(int bc) {
    for (int i = 0; i < 12; i++)
        if (SPEC_PENT_BC[i] == bc) return 1;
    return 0;
}
static inline int spec_digit(uint64_t h, int r) { return (int)((h >> (3 * (15 - r))) & 7); }
static inline int spec_res(uint64_t h) { return (int)((h >> 52) & 15); }
static inline int spec_bc(uint64_t h) { return (int)((h >> 45) & 127); }
static inline int spec_mode(uint64_t h) { return (int)((h >> 59) & 15); }
static inline int spec_reserved(uint64_t h) { return (int)((h >> 56) & 7); }
static inline int spec_high(uint64_t h) { return (int)(h >> 63); }

static int spec_valid(uint64_t h) {
    if (spec_high(h)) return 0;
    if (spec_mode(h) != 1) return 0;
    if (spec_reserved(h)) return 0;
    int res = spec_res(h), bc = spec_bc(h);
    if (bc >= 122) return 0;
    int first = 0;
    for (int r = 1; r <= 15; r++) {
        int d = spec_digit(h, r);
        if (r <= res) {
            if (d == 7) return 0;
            if (!first && d) first = d;
        } else if (d != 7)
            return 0;
    }
    if (spec_is_pent_bc(bc) && first == 1) return 0;
    return 1;
}
// is the (valid) cell a pentagon: pentagon base cell and all digits zero
static int spec_is_pentagon(uint64_t h) {
    if (!spec_is_pent_bc(spec_bc(h))) return 0;
    for (int r = 1; r <= spec_res(h); r++)
        if (spec_digit(h, r)) return 0;
    return 1;
}
static uint64_t spec_mk(int res, int bc, const int *d) {
    uint64_t h = ((uint64_t)1 << 59) | ((uint64_t)res << 52) | ((uint64_t)bc << 45);
    for (int r = 1; r <= 15; r++) h |= (uint64_t)(r <= res ? d[r - 1] : 7) << (3 * (15 - r));
    return h;
}
static uint64_t spec_set_digit(uint64_t h, int r, int d) {
    int sh = 3 * (15 - r);
    return (h & ~((uint64_t)7 << sh)) | ((uint64_t)d << sh);
}
// parent at resolution p <= res(h): truncate and fill with 7
static uint64_t spec_parent(uint64_t h, int p) {
    uint64_t x = h;
    for (int r = p + 1; r <= 15; r++) x = spec_set_digit(x, r, 7);
    x = (x & ~((uint64_t)15 << 52)) | ((uint64_t)p << 52);
    return x;
}
static int64_t spec_ipow7(int n) {
    int64_t v = 1;
    while (n-- > 0) v *= 7;
    return v;
}
static int64_t spec_numcells(int r) { return 2 + 120 * spec_ipow7(r); }
// number of children n levels below a cell
static int64_t spec_children_count(uint64_t h, int n) {
    return spec_is_pentagon(h) ? 1 + 5 * (spec_ipow7(n) - 1) / 6 : spec_ipow7(n);
}
// child iterator: odometer over digits res+1..c with the pentagon rule; returns 0 when exhausted
typedef struct {
    uint64_t h;
    int pr, cr, pent, done;
} SpecChildIt;
static int spec_child_ok(const SpecChildIt *it) {
    if (!it->pent) return 1;
    for (int r = it->pr + 1; r <= it->cr; r++) {
        int d = spec_digit(it->h, r);
        if (d) return d != 1;
    }
    return 1;
}
static void spec_child_first(SpecChildIt *it, uint64_t parent, int c) {
    it->pr = spec_res(parent);
    it->cr = c;
    it->pent = spec_is_pentagon(parent);
    it->done = 0;
    uint64_t h = (parent & ~((uint64_t)15 << 52)) | ((uint64_t)c << 52);
    for (int r = it->pr + 1; r <= c; r++) h = spec_set_digit(h, r, 0);
    it->h = h;
}
static void spec_child_next(SpecChildIt *it) {
    for (;;) {
        int r = it->cr;
        while (r > it->pr && spec_digit(it->h, r) == 6) {
            it->h = spec_set_digit(it->h, r, 0);
            r--;
        }
        if (r <= it->pr) {
            it->done = 1;
            return;
        }
        it->h = spec_set_digit(it->h, r, spec_digit(it->h, r) + 1);
        if (spec_child_ok(it)) return;
    }
}
// rank of child x among the children of its ancestor at resolution p (lexicographic count)
static int64_t spec_rank(uint64_t x, int p) {
    int c = spec_res(x);
    uint64_t par = spec_parent(x, p);
    int pent = spec_is_pentagon(par);
    int64_t rank = 0;
    int leading = 1;  // all digits so far (below p) are zero
    for (int r = p + 1; r <= c; r++) {
        int d = spec_digit(x, r);
        int m = c - r;  // remaining levels below r
        for (int e = 0; e < d; e++) {
            // number of valid completions with digit e at level r
            if (pent && leading) {
                if (e == 0)
                    rank += 1 + 5 * (spec_ipow7(m) - 1) / 6;
                else if (e == 1)
                    rank += 0;
                else
                    rank += spec_ipow7(m);
            } else
                rank += spec_ipow7(m);
        }
        if (d) leading = 0;
    }
    return rank;
}
// enumerate all cells of a resolution in ascending index order
typedef void (*SpecCellCb)(uint64_t h, void *u);
static void spec_enum(int res, SpecCellCb cb, void *u) {
    int d[15];
    for (int bc = 0; bc < 122; bc++) {
        int pent = spec_is_pent_bc(bc);
        memset(d, 0, sizeof d);
        for (;;) {
            int first = 0;
            for (int i = 0; i < res; i++)
                if (d[i]) {
                    first = d[i];
                    break;
                }
            if (!(pent && first == 1)) cb(spec_mk(res, bc, d), u);
            int i = res - 1;
            while (i >= 0 && d[i] == 6) d[i--] = 0;
            if (i < 0) break;
            d[i]++;
        }
    }
}
// i-th cell of a resolution (ascending order) without enumerating: unrank
static uint64_t spec_cell_at(int res, int64_t idx) {
    int64_t hexsz = spec_ipow7(res), pentsz = 1 + 5 * (hexsz - 1) / 6;
    int bc = 0;
    for (;; bc++) {
        int64_t sz = spec_is_pent_bc(bc) ? pentsz : hexsz;
        if (idx < sz) break;
        idx -= sz;
    }
    int d[15] = {0};
    int pent = spec_is_pent_bc(bc), leading = 1;
    for (int r = 1; r <= res; r++) {
        int m = res - r;
        for (int e = 0; e < 7; e++) {
            int64_t cnt;
            if (pent && leading)
                cnt = e == 0 ? 1 + 5 * (spec_ipow7(m) - 1) / 6 : e == 1 ? 0 : spec_ipow7(m);
            else
                cnt = spec_ipow7(m);
            if (idx < cnt) {
                d[r - 1] = e;
                break;
            }
            idx -= cnt;
        }
        if (d[r - 1]) leading = 0;
    }
    return spec_mk(res, bc, d);
}
// dense id of a valid cell within its resolution (inverse of spec_cell_at)
static int64_t spec_cell_id(uint64_t h) {
    int res = spec_res(h), bc = spec_bc(h);
    int64_t hexsz = spec_ipow7(res), pentsz = 1 + 5 * (hexsz - 1) / 6, id = 0;
    for (int b = 0; b < bc; b++) id += spec_is_pent_bc(b) ? pentsz : hexsz;
    uint64_t base = spec_parent(h, 0);
    return id + spec_rank(h, 0) + 0 * base;
}
#endif
