// BUILD: variant=opt
// C19 -- getIcosahedronFaces reports exactly the faces a cell touches.
#include "mc.h"
#include "dom.h"

const char *MC_PROPERTY = "C19";
const char *MC_RULE =
    "cell(h): maxFaceCount is 5 for a pentagon and 2 for a hexagon; getIcosahedronFaces writes exactly that many slots (canary after, "
    "every slot either -1 or a face number), the reported numbers are distinct and in 0..19; a pentagon reports 5 faces, a hexagon 1 "
    "or 2; must <= reported <= may, where face f is MUST if the cell's boundary polygon (gnomonic chart about the centre, shrunk by "
    "0.1 %) clipped to the spherical triangle of f (points nearer to f's centre than to any other face centre, margin 1e-11) is "
    "non-empty, and MAY if the unshrunk polygon clipped with slack 1e-9+1e-6*cellRadius is non-empty. Non-trivial: the may-set has more "
    "than one face (the cell lies on an icosahedron edge or vertex).";
const char *MC_ASSUME[] = {"face numbering: the 20 face-centre coordinates transcribed from the pinned source; cross-checked at start-up against the "
                           "geometry (each equals the normalised sum of three mutually adjacent res-0 pentagon centres)",
                           NULL};
const char *MC_CTR_NAMES[] = {"cells_one_face", "cells_two_faces", "cells_five_faces", "may_minus_must_cells", NULL};
const char *MC_MAX_NAMES[] = {NULL};

static const double FACE_GEO[20][2] = {
    {0.803582649718989942, 1.248397419617396099},   {1.307747883455638156, 2.536945009877921159},   {1.054751253523952054, -1.347517358900396623},
    {0.600191595538186799, -0.450603909469755746},  {0.491715428198773866, 0.401988202911306943},   {0.172745327415618701, 1.678146885280433686},
    {0.605929321571350690, 2.953923329812411617},   {0.427370518328979641, -1.888876200336285401},  {-0.079066118549212831, -0.733429513380867741},
    {-0.230961644455383637, 0.506495587332349035},  {0.079066118549212831, 2.408163140208925497},   {0.230961644455383637, -2.635097066257444203},
    {-0.172745327415618701, -1.463445768309359553}, {-0.605929321571350690, -0.187669323777381622}, {-0.427370518328979641, 1.252716453253507838},
    {-0.600191595538186799, 2.690988744120037492},  {-0.491715428198773866, -2.739604450678486295}, {-0.803582649718989942, -1.893195233972397139},
    {-1.307747883455638156, -0.604647643711872080}, {-1.054751253523952054, 1.794075294689396615}};
static DV3 F[20];

// clip polygon (x,y) by half-plane a*x + b*y + c >= 0 (Sutherland-Hodgman); returns new count
static int clip(P2 *in, int n, double a, double b, double c, P2 *out) {
    int m = 0;
    for (int i = 0; i < n; i++) {
        P2 p = in[i], q = in[(i + 1) % n];
        double sp = a * p.x + b * p.y + c, sq = a * q.x + b * q.y + c;
        if (sp >= 0) out[m++] = p;
        if ((sp >= 0) != (sq >= 0)) {
            double t = sp / (sp - sq);
            out[m++] = (P2){p.x + t * (q.x - p.x), p.y + t * (q.y - p.y)};
        }
    }
    return m;
}
// is the polygon (chart about centre cv with basis e1,e2), scaled by `shrink`, intersecting region of face f with margin?
static int touches(const P2 *poly, int n, double shrink, DV3 cv, DV3 e1, DV3 e2, int f, double margin) {
    P2 a[64], b[64];
    int m = n;
    for (int i = 0; i < n; i++) a[i] = (P2){poly[i].x * shrink, poly[i].y * shrink};
    for (int g = 0; g < 20 && m > 0; g++) {
        if (g == f) continue;
        DV3 nrm = {F[f].x - F[g].x, F[f].y - F[g].y, F[f].z - F[g].z};
        if (ddot(F[f], F[g]) < 0.3) continue;  // only the faces around f can bound its triangle near the cell... keep all near ones
        // (c + x e1 + y e2) . nrm >= margin
        m = clip(a, m, ddot(e1, nrm), ddot(e2, nrm), ddot(cv, nrm) - margin, b);
        if (m > 60) m = 60;
        memcpy(a, b, m * sizeof(P2));
    }
    return m > 0;
}
static void op_cell(const McArg *a) {
    uint64_t h = a[0].u;
    int pent = spec_is_pentagon(h), mfc = -1;
    mc_trans(2);
    MC_CHECK(maxFaceCount(h, &mfc) == 0 && mfc == (pent ? 5 : 2), "maxFaceCount(%" PRIx64 ") = %d", h, mfc);
    int out[8];
    for (int i = 0; i < 8; i++) out[i] = 0x7777;
    H3Error e = getIcosahedronFaces(h, out + 1);
    MC_CHECK(e == 0, "getIcosahedronFaces(%" PRIx64 ") returned %d", h, e);
    MC_CHECK(out[0] == 0x7777 && out[mfc + 1] == 0x7777, "getIcosahedronFaces(%" PRIx64 ") wrote outside its %d slots", h, mfc);
    int rep[20] = {0}, nrep = 0;
    for (int i = 1; i <= mfc; i++) {
        MC_CHECK(out[i] == -1 || (out[i] >= 0 && out[i] <= 19), "getIcosahedronFaces(%" PRIx64 ") slot %d = %d", h, i - 1, out[i]);
        if (out[i] >= 0) {
            MC_CHECK(!rep[out[i]], "getIcosahedronFaces(%" PRIx64 ") reports face %d twice", h, out[i]);
            rep[out[i]] = 1;
            nrep++;
        }
    }
    MC_CHECK(pent ? nrep == 5 : (nrep == 1 || nrep == 2), "getIcosahedronFaces(%" PRIx64 ") reports %d faces for a %s", h, nrep, pent ? "pentagon" : "hexagon");
    mc_ctr(nrep == 1 ? 0 : nrep == 2 ? 1 : 2, 1);
    LatLng c;
    CellBoundary cb;
    MC_CHECK(cellToLatLng(h, &c) == 0 && cellToBoundary(h, &cb) == 0 && cb.numVerts >= 3, "cellToLatLng/cellToBoundary(%" PRIx64 ") failed", h);
    // chart basis: gno() uses x east, y north about c
    DV3 cv = dv3(c);
    DV3 e1 = {-sin(c.lng), cos(c.lng), 0};
    DV3 e2 = {-sin(c.lat) * cos(c.lng), -sin(c.lat) * sin(c.lng), cos(c.lat)};
    P2 poly[10];
    double R = 0;
    for (int i = 0; i < cb.numVerts; i++) {
        poly[i] = gno(c, cb.verts[i]);
        R = fmax(R, hypot(poly[i].x, poly[i].y));
    }
    int nmay = 0, nmust = 0;
    for (int f = 0; f < 20; f++) {
        if (ddot(cv, F[f]) < 0.5) {  // face centre more than 60 degrees away: cannot touch
            MC_CHECK(!rep[f], "getIcosahedronFaces(%" PRIx64 ") reports face %d whose centre is %.3f rad away", h, f, acos(ddot(cv, F[f])));
            continue;
        }
        // may: the cell shrunk by 1e-4 about its centre still reaches into the face's region (1e-6 R of slack): a cell that merely touches an
        // icosahedron edge with a corner or an edge has no interior point on the other face and does not qualify; genuine crossings are
        // rational fractions of the cell size (>= 1e-3 R)
        int may = touches(poly, cb.numVerts, 1.0 - 1e-4, cv, e1, e2, f, -(1e-12 + 1e-6 * R));
        int must = touches(poly, cb.numVerts, 0.999, cv, e1, e2, f, 1e-11);
        nmay += may;
        nmust += must;
        MC_CHECK(!(must && !rep[f]), "getIcosahedronFaces(%" PRIx64 ") omits face %d although the cell's interior intersects it", h, f);
        MC_CHECK(!(rep[f] && !may), "getIcosahedronFaces(%" PRIx64 ") reports face %d which the cell's interior does not intersect (at most a corner or an edge touches it)", h, f);
    }
    if (nmay > 1) mc_nontrivial();
    if (nmay != nmust) mc_ctr(3, 1);
    MC_CHECK(nmust >= 1, "oracle: no face intersects %" PRIx64 " (harness)", h);
}
enum { OP_CELL };
const McOp MC_OPS[] = {{"cell", "h", op_cell}};
const int MC_NOPS = 1;
static int g_res;
static void ph_full(void *u) {
    int64_t N = spec_numcells(g_res);
    for (int64_t i = mc_wid; i < N; i += mc_nw) {
        if (mc_tick(1023)) return;
        mc_states(1);
        MC_RUN(OP_CELL, H(spec_cell_at(g_res, i)));
    }
}
static U64Vec g_dom;
static void ph_cells(void *u) {
    for (size_t i = 0; i < g_dom.n; i++) {
        if (!mc_mine(i)) continue;
        if (mc_tick(1023)) return;
        mc_states(1);
        MC_RUN(OP_CELL, H(g_dom.v[i]));
    }
}
int main(int argc, char **argv) {
    mc_init(argc, argv);
    Icosa ic;
    if (dom_icosa(&ic)) {
        fprintf(stderr, "HARNESS ERROR: cannot derive icosahedron\n");
        return 2;
    }
    for (int f = 0; f < 20; f++) {
        F[f] = dv3((LatLng){FACE_GEO[f][0], FACE_GEO[f][1]});
        int ok = 0;
        for (int g = 0; g < 20; g++) ok |= ddot(F[f], ic.facec[g]) > 1 - 1e-12;
        if (!ok) {
            fprintf(stderr, "HARNESS ERROR: face table entry %d does not match the geometry\n", f);
            return 2;
        }
    }
    int fullmax = mc_thorough ? 6 : 5;
    snprintf(mc_bounds, sizeof mc_bounds, "FULL(0..%d); FINE level 0 + EDGE(%d points per icosahedron edge, 2 rings) at resolutions %d..15", fullmax, mc_thorough ? 6000 : 800, fullmax + 1);
    for (g_res = 0; g_res <= fullmax; g_res++) {
        char nm[32];
        snprintf(nm, sizeof nm, "FULL(%d)", g_res);
        mc_phase(nm, ph_full, NULL);
    }
    for (int r = fullmax + 1; r <= 15; r++) {
        dom_fine_raw(r, 0, &g_dom);
        dom_edge(r, mc_thorough ? 6000 : 800, 2, &g_dom);
    }
    uv_sortuniq(&g_dom);
    mc_phase("fine + edge families", ph_cells, NULL);
    return mc_finish();
}
