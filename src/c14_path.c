// BUILD: variant=opt
// C14 -- gridPathCells yields a contiguous shortest path of the announced length.
#include "mc.h"
#include "dom.h"
#include "dgraph.h"

const char *MC_PROPERTY = "C14";
const char *MC_RULE =
    "from(a): BFS from a over the complete geometric graph; for EVERY b of the resolution: if gridPathCellsSize(a,b) succeeds with n "
    "then n == BFS distance + 1; if gridPathCells succeeds the n cells start with a, end with b, are valid, and consecutive cells are "
    "adjacent in the geometric graph; it must succeed for b == a and for every graph edge; a canary slot after the n-th cell stays "
    "intact on success and on failure (violations keyed as path(a,b)). ball(a,R): the same on the on-demand graph within R steps at "
    "fine resolutions. far(a, dir, steps): long paths: b = the cell reached by walking `steps` geometric steps from a in a fixed "
    "heading; consecutive cells must be geometric neighbours (on-demand), length = announced size. Non-trivial: the path or the pair's "
    "neighbourhood involves a pentagon base cell or crosses base cells.";
const char *MC_ASSUME[] = {"G_geo verified symmetric with degree 6/5 before use", NULL};
const char *MC_CTR_NAMES[] = {"oracle_unavailable", "pairs", "paths_returned", "paths_refused", "path_cells_checked", "longest_path", NULL};
const char *MC_MAX_NAMES[] = {"longest_path_cells", NULL};
#define CANARY 0xC0FFEE0DDEADBEEFull
enum { OP_FROM, OP_PATH, OP_BALL, OP_FAR };

static int16_t *bd16;
static int32_t *bq;
static int64_t bn;
static uint64_t *pbuf;
static int64_t pcap;
static OGraph G;
static int G_init;
static void ginit(void) {
    if (!G_init) og_init(&G, 1 << 16), G_init = 1;
    if (G.n > 3000000) og_clear(&G);
}
static int geo_adjacent(uint64_t u, uint64_t v) {
    uint64_t nb[8];
    int n = og_nbrs(&G, u, nb);
    if (n < 0) return -1;
    for (int i = 0; i < n; i++)
        if (nb[i] == v) return 1;
    return 0;
}
// d = BFS distance if known (>=0) or -1 (unknown: long paths)
static int check_path(uint64_t a, uint64_t b, int d, const DGraph *g) {
    int64_t n = -77;
    McArg args[2] = {H(a), H(b)};
    mc_ctr(1, 1);
    mc_trans(2);
    H3Error e = gridPathCellsSize(a, b, &n);
    if (e) {
        mc_ctr(3, 1);
        if (e > 15 || (d >= 0 && d <= 1)) {
            MC_FAIL_AS(OP_PATH, 2, args, "gridPathCellsSize(%" PRIx64 ",%" PRIx64 ") returned %d for cells %d steps apart (must succeed for identical and neighbouring cells)", a, b, e, d);
            return 0;
        }
        return 1;
    }
    if (n < 1 || (d >= 0 && n != d + 1)) {
        MC_FAIL_AS(OP_PATH, 2, args, "gridPathCellsSize(%" PRIx64 ",%" PRIx64 ") = %" PRId64 " but the cells are %d neighbour steps apart", a, b, n, d);
        return 0;
    }
    if (n + 1 > pcap) {
        pcap = n + 1024;
        pbuf = realloc(pbuf, pcap * 8);
    }
    memset(pbuf, 0, n * 8);
    pbuf[n] = CANARY;
    e = gridPathCells(a, b, pbuf);
    if (pbuf[n] != CANARY) {
        MC_FAIL_AS(OP_PATH, 2, args, "gridPathCells(%" PRIx64 ",%" PRIx64 ") (returned %d) wrote beyond the announced %" PRId64 " cells", a, b, e, n);
        return 0;
    }
    if (e) {
        mc_ctr(3, 1);
        if (e > 15 || (d >= 0 && d <= 1)) {
            MC_FAIL_AS(OP_PATH, 2, args, "gridPathCells(%" PRIx64 ",%" PRIx64 ") returned %d for cells %d steps apart", a, b, e, d);
            return 0;
        }
        return 1;
    }
    mc_ctr(2, 1);
    mc_max(0, (double)n);
    if (pbuf[0] != a || pbuf[n - 1] != b) {
        MC_FAIL_AS(OP_PATH, 2, args, "gridPathCells(%" PRIx64 ",%" PRIx64 ") starts with %" PRIx64 " and ends with %" PRIx64, a, b, pbuf[0], pbuf[n - 1]);
        return 0;
    }
    for (int64_t i = 0; i < n; i++) {
        if (!spec_valid(pbuf[i]) || spec_res(pbuf[i]) != spec_res(a)) {
            MC_FAIL_AS(OP_PATH, 2, args, "gridPathCells(%" PRIx64 ",%" PRIx64 ")[%" PRId64 "] = %" PRIx64 " is not a valid cell of the resolution", a, b, i, pbuf[i]);
            return 0;
        }
        if (i) {
            int adj = g ? dg_adjacent(g, (int32_t)spec_cell_id(pbuf[i - 1]), (int32_t)spec_cell_id(pbuf[i])) : geo_adjacent(pbuf[i - 1], pbuf[i]);
            if (adj < 0) {
                mc_ctr(0, 1);
                return 1;
            }
            if (!adj) {
                MC_FAIL_AS(OP_PATH, 2, args, "gridPathCells(%" PRIx64 ",%" PRIx64 "): cells %" PRId64 " and %" PRId64 " (%" PRIx64 ", %" PRIx64 ") are not neighbours", a, b, i - 1, i, pbuf[i - 1], pbuf[i]);
                return 0;
            }
        }
    }
    mc_ctr(4, n);
    // the same pair asked again straight away (size, path, size, path) must give the same answer: results must not depend on the call before
    if (n <= 48) {
        static uint64_t again[64];
        int64_t n2 = -1;
        again[n] = CANARY;
        mc_trans(2);
        H3Error e1 = gridPathCellsSize(a, b, &n2), e2 = e1 ? e1 : gridPathCells(a, b, again);
        if (e1 || e2 || n2 != n || again[n] != CANARY || memcmp(again, pbuf, n * 8)) {
            MC_FAIL_AS(OP_PATH, 2, args, "gridPathCellsSize/gridPathCells(%" PRIx64 ",%" PRIx64 ") asked twice in a row: second answer %d/%d, size %" PRId64 " (first %" PRId64 "), cells %s", a, b, e1, e2, n2, n, e2 || n2 != n ? "n/a" : "differ");
            return 0;
        }
    }
    return 1;
}
static void op_from(const McArg *a) {
    uint64_t h = a[0].u;
    int res = spec_res(h);
    DGraph *g = dg_get(res);
    if (*g->nbad) {
        mc_ctr(0, 1);
        return;
    }
    if (g->n > bn) bd16 = realloc(bd16, g->n * 2), bq = realloc(bq, g->n * 4), bn = g->n;
    dg_bfs(g, (int32_t)spec_cell_id(h), bd16, bq);
    if (spec_is_pent_bc(spec_bc(h))) mc_nontrivial();
    for (int64_t i = 0; i < g->n; i++)
        if (!check_path(h, spec_cell_at(res, i), bd16[i], g)) return;
    mc_states(g->n);
}
// near(h, R): every target within R neighbour steps of h on the dense graph of a complete resolution (distances known from BFS)
static void op_near(const McArg *a) {
    uint64_t h = a[0].u;
    int res = spec_res(h), R = (int)a[1].i;
    DGraph *g = dg_get(res);
    if (*g->nbad) {
        mc_ctr(0, 1);
        return;
    }
    if (g->n > bn) bd16 = realloc(bd16, g->n * 2), bq = realloc(bq, g->n * 4), bn = g->n;
    dg_bfs(g, (int32_t)spec_cell_id(h), bd16, bq);
    mc_nontrivial();
    int64_t cnt = 0;
    for (int64_t i = 0; i < g->n; i++)
        if (bd16[i] <= R) {
            cnt++;
            if (!check_path(h, spec_cell_at(res, i), bd16[i], g)) return;
        }
    mc_states(cnt);
}
static void op_path(const McArg *a) {
    uint64_t h = a[0].u, b = a[1].u;
    int res = spec_res(h);
    mc_nontrivial();
    if (!spec_valid(h) || !spec_valid(b) || spec_res(b) != res) return;
    ginit();
    if (res <= 3) {
        DGraph *g = dg_get(res);
        if (g->n > bn) bd16 = realloc(bd16, g->n * 2), bq = realloc(bq, g->n * 4), bn = g->n;
        dg_bfs(g, (int32_t)spec_cell_id(h), bd16, bq);
        check_path(h, b, bd16[spec_cell_id(b)], g);
    } else {
        static uint64_t bc[8192];
        static int bdd[8192];
        int n = og_ball(&G, h, 12, bc, bdd, 8192), d = -1;
        for (int i = 0; i < n; i++)
            if (bc[i] == b) d = bdd[i];
        check_path(h, b, d, NULL);
    }
}
#define MAXB 4096
static void op_ball(const McArg *a) {
    uint64_t h = a[0].u;
    int R = (int)a[1].i;
    static uint64_t bc[MAXB];
    static int bdd[MAXB];
    ginit();
    int n = og_ball(&G, h, R, bc, bdd, MAXB);
    if (n < 0) {
        mc_ctr(0, 1);
        return;
    }
    int pent = 0;
    for (int i = 0; i < n; i++) pent |= spec_is_pentagon(bc[i]);
    if (pent || spec_bc(bc[n - 1]) != spec_bc(h)) mc_nontrivial();
    uint64_t cells[MAXB];
    int ds[MAXB];
    memcpy(cells, bc, n * 8);
    memcpy(ds, bdd, n * sizeof(int));
    for (int i = 0; i < n; i++)
        if (!check_path(h, cells[i], ds[i], NULL)) return;
    mc_states(n);
}
// walk `steps` geometric steps from a with heading angle index dir (0..5) in the local chart
static void op_far(const McArg *a) {
    uint64_t h = a[0].u, cur = h;
    int dir = (int)a[1].i, steps = (int)a[2].i;
    ginit();
    LatLng c0;
    if (cellToLatLng(h, &c0)) return;
    double ang = dir * M_PI / 3 + 0.2;
    for (int s = 0; s < steps; s++) {
        uint64_t nb[8];
        int n = og_nbrs(&G, cur, nb);
        if (n < 0) {
            mc_ctr(0, 1);
            return;
        }
        // choose the neighbour whose centre lies furthest along the heading from the current cell
        LatLng cc;
        cellToLatLng(cur, &cc);
        double best = -1e9;
        uint64_t bn_ = 0;
        for (int i = 0; i < n; i++) {
            LatLng g;
            cellToLatLng(nb[i], &g);
            P2 q = gno(cc, g);
            double sc = q.x * cos(ang) + q.y * sin(ang);
            if (sc > best) best = sc, bn_ = nb[i];
        }
        cur = bn_;
    }
    mc_nontrivial();
    check_path(h, cur, -1, NULL);
    check_path(cur, h, -1, NULL);
}
// line(a, dir, L): long straight lines from origins that lie far from their base-cell centre (large local coordinates): the target is picked
// with the library's own localIjToCell(a, ij(a) + t*dir) (inputs need not be independent), the path is judged as always by G_geo adjacency
static const int LAX[6][2] = {{1, 0}, {0, 1}, {1, 1}, {-1, 0}, {0, -1}, {-1, -1}};
static const double LFRAC[5] = {0.05, 0.381966, 0.141593, 0.707107, 0.93};
#define NLDIR 30
static void op_line(const McArg *a) {
    uint64_t h = a[0].u, b = 0;
    int dir = (int)a[1].i, L = (int)a[2].i;
    ginit();
    CoordIJ ij0, ij;
    if (dir < 0 || dir >= NLDIR || cellToLocalIj(h, h, 0, &ij0)) return;
    // L steps along one hexagonal axis plus frac*L steps along the next one: the line crosses cells at ever-changing offsets
    int k = dir % 6, side = (int)(L * LFRAC[dir / 6]);
    ij.i = ij0.i + LAX[k][0] * L + LAX[(k + 1) % 6][0] * side;
    ij.j = ij0.j + LAX[k][1] * L + LAX[(k + 1) % 6][1] * side;
    if (localIjToCell(h, &ij, 0, &b) || !spec_valid(b)) {
        mc_ctr(3, 1);
        return;
    }
    mc_nontrivial();
    check_path(h, b, -1, NULL);
    check_path(b, h, -1, NULL);
    if (G.n > 1500000) og_clear(&G);
}
enum { OP_LINE = 4, OP_NEAR = 5 };
const McOp MC_OPS[] = {{"from", "h", op_from}, {"path", "hh", op_path}, {"ball", "hi", op_ball}, {"far", "hii", op_far}, {"line", "hii", op_line}, {"near", "hi", op_near}};
const int MC_NOPS = 6;

static int g_res;
static void ph_from(void *u) {
    int64_t N = spec_numcells(g_res);
    for (int64_t i = mc_wid; i < N; i += mc_nw) {
        if (mc_expired()) return;
        MC_RUN(OP_FROM, H(spec_cell_at(g_res, i)));
    }
}
static U64Vec g_dom;
static int g_R;
static void ph_from_dom(void *u) {
    for (size_t i = mc_wid; i < g_dom.n; i += mc_nw) {
        if (mc_expired()) return;
        MC_RUN(OP_FROM, H(g_dom.v[i]));
    }
}
static void ph_ball(void *u) {
    size_t lo = g_dom.n * mc_wid / mc_nw, hi = g_dom.n * (mc_wid + 1) / mc_nw;
    for (size_t i = lo; i < hi; i++) {
        if (mc_tick(15)) return;
        MC_RUN(OP_BALL, H(g_dom.v[i]), I(g_R));
    }
}
static void ph_far(void *u) {
    static const int steps[] = {10, 100, 500};
    uint64_t idx = 0;
    for (size_t i = 0; i < g_dom.n; i++)
        for (int d = 0; d < 6; d++)
            for (int s = 0; s < 3; s++, idx++) {
                if (!mc_mine(idx)) continue;
                if (mc_expired()) return;
                MC_RUN(OP_FAR, H(g_dom.v[i]), I(d), I(steps[s]));
            }
}
static int g_nearR;
static void ph_near(void *u) {
    for (size_t i = mc_wid; i < g_dom.n; i += mc_nw) {
        if (mc_expired()) return;
        MC_RUN(OP_NEAR, H(g_dom.v[i]), I(g_nearR));
    }
}
static U64Vec g_corner;
static void ph_line(void *u) {
    static const int Ls[] = {60, 190, 340, 500, 700, 1000, 1600, 2100, 2800};
    uint64_t idx = 0;
    for (size_t i = 0; i < g_corner.n; i++)
        for (int d = 0; d < NLDIR; d += (mc_thorough ? 1 : 2))
            for (int s = 0; s < 9; s++, idx++) {
                if (!mc_mine(idx)) continue;
                if (mc_expired()) return;
                MC_RUN(OP_LINE, H(g_corner.v[i]), I(d + (mc_thorough ? 0 : (int)(i & 1))), I(Ls[s]));
            }
}
int main(int argc, char **argv) {
    mc_init(argc, argv);
    int fullmax = mc_thorough ? 3 : 2;
    g_R = mc_thorough ? 8 : 5;
    snprintf(mc_bounds, sizeof mc_bounds,
             "all ordered pairs of FULL(0..%d)%s; every origin within 14 (20) steps of a pentagon at the next resolution x every target within 30 (45) steps; balls of radius %d around FINE level %d origins at resolutions %d..15; long paths of 10/100/500 steps "
             "in 6 headings from PENT(r,1) origins and IDX base cells at r in {5,10,15}; straight lines of 60..2800 cells in 16 (quick: 8) IJ directions from "
             "origins with digit strings d^r,(d e)^r/2 (far from the base-cell centre, local coordinates up to 1.4e6) at r = 13..15",
             fullmax, mc_thorough ? "" : " plus PENT(3,3) origins x all of FULL(3)", g_R, mc_thorough ? 1 : 2, fullmax + 1);
    for (g_res = 0; g_res <= fullmax; g_res++) {
        dg_build_parallel(g_res);
        char nm[64];
        snprintf(nm, sizeof nm, "all ordered pairs of FULL(%d)", g_res);
        mc_phase(nm, ph_from, NULL);
    }
    if (!mc_thorough) {
        dg_build_parallel(3);
        dom_pent(3, 3, &g_dom);
        mc_phase("PENT(3,3) origins x all of FULL(3)", ph_from_dom, NULL);
        g_dom.n = 0;
    }
    {
        // lines that pass a pentagon on any side: origins = every cell within 14 steps of a pentagon at the first resolution that is not
        // explored completely (quick: 3, thorough: 4), targets = everything within 30 steps
        int r = fullmax + 1;
        dg_build_parallel(r);
        DGraph *g = dg_get(r);
        g_dom.n = 0;
        if (!*g->nbad) {
            uint64_t pents[12];
            getPentagons(r, pents);
            if (g->n > bn) bd16 = realloc(bd16, g->n * 2), bq = realloc(bq, g->n * 4), bn = g->n;
            for (int p = 0; p < 12; p++) {
                dg_bfs(g, (int32_t)spec_cell_id(pents[p]), bd16, bq);
                for (int64_t i = 0; i < g->n; i++)
                    if (bd16[i] <= (r == 3 ? 14 : 20) && (mc_thorough || i % 2 == 0)) uv_push(&g_dom, spec_cell_at(r, i));
            }
            uv_sortuniq(&g_dom);
        }
        g_nearR = r == 3 ? 30 : 45;
        mc_phase("origins near the pentagons x targets within 30 (45) steps", ph_near, NULL);
        g_dom.n = 0;
    }
    for (int r = fullmax + 1; r <= 15; r++) dom_fine_raw(r, mc_thorough ? 1 : 2, &g_dom);
    uv_sortuniq(&g_dom);
    mc_phase("balls at fine resolutions", ph_ball, NULL);
    g_dom.n = 0;
    for (int r = 5; r <= 15; r += 5) {
        dom_pent(r, 1, &g_dom);
        U64Vec b = {0};
        dom_idx_bases(1, &b);
        for (size_t i = 0; i < b.n; i++)
            if (spec_res(b.v[i]) == r) uv_push(&g_dom, b.v[i]);
        uv_free(&b);
    }
    uv_sortuniq(&g_dom);
    mc_phase("long paths", ph_far, NULL);
    // origins far from their base-cell centre: digit strings d^r and (d e)^r/2 under a few base cells, at the three finest resolutions
    {
        static const int bcs[] = {0, 15, 37, 61, 90, 121, 4, 58};
        for (int r = 15; r >= 13; r--)
            for (unsigned b = 0; b < (mc_thorough ? 8 : 4); b++)
                for (int d1 = 1; d1 <= 6; d1++)
                    for (int d2 = d1; d2 <= 6; d2 += (mc_thorough ? 1 : 3)) {
                        int dg[15];
                        for (int q = 0; q < 15; q++) dg[q] = (q & 1) ? d2 : d1;
                        uint64_t h = spec_mk(r, bcs[b], dg);
                        if (spec_valid(h)) uv_push(&g_corner, h);
                    }
        uv_sortuniq(&g_corner);
    }
    mc_phase("long lines from far-corner origins (res 13-15)", ph_line, NULL);
    return mc_finish();
}
