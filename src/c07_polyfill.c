// BUILD: variant=opt
// C07 -- polygonToCells (both algorithms) returns exactly the cells whose centre is inside the polygon.
#include "mc.h"
#include "dom.h"
#include "poly.h"

const char *MC_PROPERTY = "C07";
const char *MC_RULE =
    "poly(shape, anchor, scale, res): one polygon of the catalogue (14 shapes incl. concave, needle 30:1, sub-cell, 1-2 holes, hole "
    "smaller than a cell, island-sized hole; anchors: 122 base-cell centres, res-0 cell corners, icosahedron edge midpoints and face "
    "centres, antimeridian-straddling points at 5 latitudes, near both poles; 4 scales) through polygonToCells and "
    "polygonToCellsExperimental(CENTER). Candidate cells: FULL(r) for r<=2, else the flood over the geometric graph of all cells whose "
    "centre lies in the polygon's bounding box grown by 3 cell edges, plus 122 far sentinels, plus every cell an algorithm returns. "
    "Oracle: crossing-number point-in-polygon in the (lng,lat) plane (outer minus holes; a loop with an edge spanning > pi of longitude "
    "is shifted by 2pi) on cellToLatLng of each candidate; centres within 1e-9 rad of an outline are undecided. Both outputs must equal "
    "the decided-inside set on decided cells, be duplicate-free and fit maxPolygonToCellsSize(Experimental) (canary). Non-trivial: the "
    "polygon contains at least one cell centre, crosses the antimeridian, has holes, or sits at a pentagon.";
const char *MC_ASSUME[] = {"planar crossing-number oracle in lat/lng space as the property defines containment", "candidate enumeration uses G_geo (C05/C08)", NULL};
const char *MC_CTR_NAMES[] = {"polygons", "filtered_out", "candidate_cells", "inside_cells", "undecided_cells", "transmeridian_polygons", "oracle_unavailable", NULL};
const char *MC_MAX_NAMES[] = {"largest_fill_cells", NULL};
#define CANARY 0xC0FFEE0DDEADBEEFull
enum { OP_POLY };

static OGraph G;
static int G_init;
static void op_poly(const McArg *a) {
    Poly p;
    if (poly_build((int)a[0].i, (int)a[1].i, (int)a[2].i, (int)a[3].i, &p)) {
        mc_ctr(1, 1);
        return;
    }
    int res = p.res;
    if (!G_init) og_init(&G, 1 << 16), G_init = 1;
    if (G.n > 1500000) og_clear(&G);
    U64Vec cand = {0};
    int cr = poly_candidates(&p, &G, 3 * p.u, &cand);
    if (cr < 0) {
        mc_ctr(cr == -1 ? 6 : 1, 1);
        uv_free(&cand);
        return;
    }
    mc_ctr(0, 1);
    int tm = loop_transmeridian(&p.outer);
    if (tm) mc_ctr(5, 1);
    // oracle over candidates
    U64Vec inside = {0}, undec = {0};
    for (size_t i = 0; i < cand.n; i++) {
        LatLng c;
        if (cellToLatLng(cand.v[i], &c)) continue;
        int v = poly_contains(&p, c, 1e-9);
        if (v < 0)
            uv_push(&undec, cand.v[i]);
        else if (v)
            uv_push(&inside, cand.v[i]);
    }
    mc_ctr(2, cand.n);
    mc_ctr(3, inside.n);
    mc_ctr(4, undec.n);
    mc_max(0, (double)inside.n);
    if (inside.n || tm || p.nh || poly_anchor_kind[a[1].i] == 1) mc_nontrivial();
    for (int algo = 0; algo < 2; algo++) {
        const char *fn = algo ? "polygonToCellsExperimental" : "polygonToCells";
        int64_t sz = -1;
        mc_trans(2);
        H3Error e = algo ? maxPolygonToCellsSizeExperimental(&p.gp, res, 0, &sz) : maxPolygonToCellsSize(&p.gp, res, 0, &sz);
        if (e || sz < 0) {
            mc_fail("%s size function returned %d (size %" PRId64 ") for a well-formed polygon at res %d", fn, e, sz, res);
            break;
        }
        if ((int64_t)inside.n > sz) {
            mc_fail("%s: %zu cell centres lie inside the polygon but the size function reports only %" PRId64, fn, inside.n, sz);
            break;
        }
        uint64_t *out = calloc(sz + 1, 8);
        out[sz] = CANARY;
        e = algo ? polygonToCellsExperimental(&p.gp, res, 0, sz, out) : polygonToCells(&p.gp, res, 0, out);
        if (out[sz] != CANARY) {
            mc_fail("%s wrote beyond the %" PRId64 " slots its size function reported", fn, sz);
            free(out);
            break;
        }
        if (e) {
            mc_fail("%s returned %d for a well-formed polygon at res %d (%zu centres inside)", fn, e, res, inside.n);
            free(out);
            break;
        }
        U64Vec got = {0};
        for (int64_t i = 0; i < sz; i++)
            if (out[i]) uv_push(&got, out[i]);
        free(out);
        size_t raw = got.n;
        uv_sortuniq(&got);
        if (got.n != raw) {
            mc_fail("%s returned %zu cells of which only %zu are distinct", fn, raw, got.n);
            uv_free(&got);
            break;
        }
        // every returned cell: valid, right res, decided-inside or undecided
        for (size_t i = 0; i < got.n && !mc_w->cur_failed; i++) {
            uint64_t h = got.v[i];
            if (!spec_valid(h) || spec_res(h) != res) {
                mc_fail("%s returned %" PRIx64 " which is not a valid res-%d cell", fn, h, res);
                break;
            }
            if (uv_has(&inside, h) || uv_has(&undec, h)) continue;
            LatLng c;
            cellToLatLng(h, &c);
            int v = poly_contains(&p, c, 1e-9);
            if (v == 0) mc_fail("%s returned %" PRIx64 " whose centre (%.12g,%.12g) lies outside the polygon", fn, h, c.lat, c.lng);
            if (v == 1) mc_fail("%s returned %" PRIx64 " (centre inside) which the candidate flood did not reach (harness/oracle)", fn, h);
        }
        for (size_t i = 0; i < inside.n && !mc_w->cur_failed; i++)
            if (!uv_has(&got, inside.v[i])) {
                LatLng c;
                cellToLatLng(inside.v[i], &c);
                mc_fail("%s omits %" PRIx64 " whose centre (%.12g,%.12g) lies inside the polygon (%zu of %zu inside cells returned)", fn, inside.v[i], c.lat, c.lng, got.n, inside.n);
            }
        uv_free(&got);
        if (mc_w->cur_failed) break;
    }
    uv_free(&cand);
    uv_free(&inside);
    uv_free(&undec);
}
const McOp MC_OPS[] = {{"poly", "iiii", op_poly}};
const int MC_NOPS = 1;

static int g_astep, g_rstep;
static void ph_poly(void *u) {
    int res0 = *(int *)u;
    uint64_t idx = 0;
    poly_build_anchors();
    for (int res = res0; res <= 15; res += g_rstep)
        for (int an = 0; an < poly_nanchor; an++) {
            // quick tier: all special anchors, every g_astep-th of the hexagon base-cell centres and corners
            int k = poly_anchor_kind[an];
            if ((k == 0 || k == 2) && an % g_astep) continue;
            for (int sh = 0; sh < POLY_NSHAPES; sh++)
                for (int sc = 0; sc < 4; sc++, idx++) {
                    if (!mc_mine(idx)) continue;
                    if (mc_expired()) return;
                    MC_RUN(OP_POLY, I(sh), I(an), I(sc), I(res));
                }
        }
}
int main(int argc, char **argv) {
    mc_init(argc, argv);
    g_astep = mc_thorough ? 1 : 12;
    g_rstep = mc_thorough ? 1 : 3;
    poly_build_anchors();
    snprintf(mc_bounds, sizeof mc_bounds, "14 shapes x 4 scales x %d anchors (%s) x resolutions %s; polygons with more than ~6000 bounding-box cells, within 9 scale units of a pole or wider than 1.2 rad are filtered out (counted)",
             poly_nanchor, mc_thorough ? "all" : "all special anchors + every 12th base-cell centre/corner", mc_thorough ? "0..15" : "0,3,..,15 and 1,4,..,13 / 2,5,..,14 (sparser anchors)");
    int r0 = 0;
    mc_phase("catalogue", ph_poly, &r0);
    if (!mc_thorough) {
        // second comb of resolutions with a sparser anchor set
        g_astep = 40;
        r0 = 1;
        mc_phase("catalogue (resolutions 1,4,..)", ph_poly, &r0);
        r0 = 2;
        mc_phase("catalogue (resolutions 2,5,..)", ph_poly, &r0);
    }
    return mc_finish();
}
