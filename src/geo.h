// geo.h -- GEO: numerically careful spherical geometry in a local gnomonic chart, and the
// geometry-derived neighbour graph G_geo. Uses only latLngToCell / cellToLatLng / cellToBoundary
// of the library (never a traversal function).
#ifndef GEO_H
#define GEO_H
#include <math.h>
#include <stdint.h>
#include <stdlib.h>
#include <string.h>

#include "h3api.h"
#include "spec.h"

typedef struct {
    double x, y;
} P2;

static inline double geo_wrap(double dlng) {
    if (dlng > M_PI) dlng -= 2 * M_PI;
    if (dlng < -M_PI) dlng += 2 * M_PI;
    return dlng;
}
// gnomonic projection of p about c0, cancellation-free for nearby points
static P2 gno(LatLng c0, LatLng p) {
    double dlat = p.lat - c0.lat, dlng = geo_wrap(p.lng - c0.lng);
    double s2 = sin(dlng / 2);
    s2 *= s2;
    double cosc = cos(dlat) - 2 * cos(c0.lat) * cos(p.lat) * s2;
    P2 r;
    r.x = cos(p.lat) * sin(dlng) / cosc;
    r.y = (sin(dlat) + 2 * sin(c0.lat) * cos(p.lat) * s2) / cosc;
    return r;
}
static LatLng ungno(LatLng c0, P2 q) {
    double rho = hypot(q.x, q.y);
    if (rho == 0) return c0;
    double c = atan(rho);
    LatLng g;
    g.lat = asin(cos(c) * sin(c0.lat) + q.y * sin(c) * cos(c0.lat) / rho);
    g.lng = c0.lng + atan2(q.x * sin(c), rho * cos(c0.lat) * cos(c) - q.y * sin(c0.lat) * sin(c));
    if (g.lng > M_PI) g.lng -= 2 * M_PI;
    if (g.lng < -M_PI) g.lng += 2 * M_PI;
    return g;
}
// angular distance, accurate for small separations
static double adist(LatLng a, LatLng b) {
    P2 q = gno(a, b);
    return atan(hypot(q.x, q.y));
}
static double segdist(P2 p, P2 a, P2 b) {
    double vx = b.x - a.x, vy = b.y - a.y, wx = p.x - a.x, wy = p.y - a.y;
    double vv = vx * vx + vy * vy;
    double t = vv > 0 ? (wx * vx + wy * vy) / vv : 0;
    if (t < 0) t = 0;
    if (t > 1) t = 1;
    return hypot(wx - t * vx, wy - t * vy);
}
// winding-number point in polygon (planar)
static int inpoly(P2 p, const P2 *v, int n) {
    int wn = 0;
    for (int i = 0; i < n; i++) {
        P2 a = v[i], b = v[(i + 1) % n];
        double cr = (a.x - p.x) * (b.y - p.y) - (a.y - p.y) * (b.x - p.x);
        if (a.y <= p.y) {
            if (b.y > p.y && cr > 0) wn++;
        } else {
            if (b.y <= p.y && cr < 0) wn--;
        }
    }
    return wn;
}
// minimum planar distance from p to the polygon outline
static double polydist(P2 p, const P2 *v, int n) {
    double d = 1e300;
    for (int i = 0; i < n; i++) {
        double x = segdist(p, v[i], v[(i + 1) % n]);
        if (x < d) d = x;
    }
    return d;
}
// spherical area of the fan (c; v0..vn-1), vertices given in a chart centred on c. Signed: >0 if ccw.
static double fanAreaP(const P2 *v, int n) {
    double A = 0;
    for (int i = 0; i < n; i++) {
        P2 a = v[i], b = v[(i + 1) % n];
        double ra = hypot(a.x, a.y), rb = hypot(b.x, b.y);
        if (ra == 0 || rb == 0) continue;
        double ta = ra / (1 + sqrt(1 + ra * ra)), tb = rb / (1 + sqrt(1 + rb * rb));
        double sinC = (a.x * b.y - a.y * b.x) / (ra * rb), cosC = (a.x * b.x + a.y * b.y) / (ra * rb);
        A += 2 * atan2(ta * tb * sinC, 1 + ta * tb * cosC);
    }
    return A;
}
static double fanArea(LatLng c, const LatLng *verts, int n) {
    P2 v[64];
    if (n > 64) return NAN;
    for (int i = 0; i < n; i++) v[i] = gno(c, verts[i]);
    return fanAreaP(v, n);
}

// Does the closed cell (boundary in chart about its centre) contain p within tolerance tol (radians)?
// returns 1 inside, 0 outside; *excess = lower bound of angular distance outside (0 if inside)
static int cell_contains(uint64_t h, LatLng p, double *excess) {
    LatLng c;
    CellBoundary cb;
    *excess = 0;
    if (cellToLatLng(h, &c) || cellToBoundary(h, &cb) || cb.numVerts < 3 || cb.numVerts > 10) {
        *excess = 1e9;
        return 0;
    }
    P2 bv[10];
    for (int i = 0; i < cb.numVerts; i++) bv[i] = gno(c, cb.verts[i]);
    P2 pv = gno(c, p);
    if (!(pv.x == pv.x && pv.y == pv.y)) {
        *excess = 1e9;
        return 0;
    }
    if (inpoly(pv, bv, cb.numVerts)) return 1;
    double d = polydist(pv, bv, cb.numVerts);
    *excess = d / (1 + pv.x * pv.x + pv.y * pv.y);
    return 0;
}

// ---- geometric neighbours of a cell: probe across every (non-degenerate) boundary segment.
// returns number of distinct neighbours (up to 8 stored), or -1 if the geometry pipeline misbehaves
static int geo_nbrs(uint64_t h, uint64_t *out) {
    int res = spec_res(h);
    LatLng c;
    CellBoundary cb;
    if (cellToLatLng(h, &c) || cellToBoundary(h, &cb) || cb.numVerts < 3 || cb.numVerts > 10) return -1;
    P2 bv[10];
    double maxseg = 0;
    for (int i = 0; i < cb.numVerts; i++) bv[i] = gno(c, cb.verts[i]);
    for (int i = 0; i < cb.numVerts; i++) {
        P2 a = bv[i], b = bv[(i + 1) % cb.numVerts];
        double l = hypot(a.x - b.x, a.y - b.y);
        if (l > maxseg) maxseg = l;
    }
    int n = 0;
    for (int i = 0; i < cb.numVerts; i++) {
        P2 a = bv[i], b = bv[(i + 1) % cb.numVerts];
        double l = hypot(a.x - b.x, a.y - b.y);
        if (l < 0.05 * maxseg) continue;
        P2 m = {(a.x + b.x) / 2, (a.y + b.y) / 2};
        // outward normal of a ccw polygon edge (a->b): (dy, -dx)
        double nx = (b.y - a.y) / l, ny = -(b.x - a.x) / l;
        double step = 0.25 * hypot(m.x, m.y);
        P2 q = {m.x + nx * step, m.y + ny * step};
        LatLng p = ungno(c, q);
        uint64_t nb;
        if (latLngToCell(&p, res, &nb)) return -1;
        if (nb == h) return -1;
        int f = 0;
        for (int k = 0; k < n; k++)
            if (out[k] == nb) f = 1;
        if (!f) {
            if (n >= 8) return -1;
            out[n++] = nb;
        }
    }
    return n;
}

// ---- complete graph of one resolution (dense ids in spec order), built in parallel into shared memory
typedef struct {
    int res;
    int64_t n;
    uint64_t *cells;  // ascending
    int32_t (*nbr)[6];
    int8_t *deg;  // -1: oracle unavailable
} GGraph;
static int64_t gg_id(const GGraph *g, uint64_t h) {
    int64_t lo = 0, hi = g->n - 1;
    while (lo <= hi) {
        int64_t m = (lo + hi) / 2;
        if (g->cells[m] == h) return m;
        if (g->cells[m] < h)
            lo = m + 1;
        else
            hi = m - 1;
    }
    return -1;
}
static void gg_addcb(uint64_t h, void *u) {
    GGraph *g = u;
    g->cells[g->n++] = h;
}
// BFS on a complete graph; dist must have g->n ints, queue g->n ints. Returns number reached.
static int64_t gg_bfs(const GGraph *g, int32_t src, int32_t *dist, int32_t *queue, int maxd) {
    memset(dist, 0xff, sizeof(int32_t) * g->n);
    int64_t qh = 0, qt = 0;
    dist[src] = 0;
    queue[qt++] = src;
    while (qh < qt) {
        int32_t u = queue[qh++];
        if (maxd >= 0 && dist[u] >= maxd) continue;
        for (int k = 0; k < g->deg[u]; k++) {
            int32_t v = g->nbr[u][k];
            if (dist[v] < 0) {
                dist[v] = dist[u] + 1;
                queue[qt++] = v;
            }
        }
    }
    return qt;
}

// ---- on-demand graph for fine resolutions: open-addressing map cell -> neighbours
typedef struct {
    uint64_t h;
    uint64_t nb[6];
    int8_t deg;  // -2 = not computed
    int32_t mark, dist;
} ONode;
typedef struct {
    ONode *t;
    size_t cap, n;
    int32_t epoch;
} OGraph;
static void og_init(OGraph *g, size_t cap) {
    g->cap = 1;
    while (g->cap < cap * 2) g->cap <<= 1;
    g->t = calloc(g->cap, sizeof(ONode));
    g->n = 0;
    g->epoch = 0;
}
static void og_clear(OGraph *g) {
    memset(g->t, 0, g->cap * sizeof(ONode));
    g->n = 0;
    g->epoch = 0;
}
static void og_free(OGraph *g) { free(g->t); }
static ONode *og_get(OGraph *g, uint64_t h) {
    if (g->n * 2 >= g->cap) {
        // grow
        OGraph ng;
        og_init(&ng, g->cap);
        for (size_t i = 0; i < g->cap; i++)
            if (g->t[i].h) {
                size_t k = (g->t[i].h * 0x9E3779B97F4A7C15ull) >> 20 & (ng.cap - 1);
                while (ng.t[k].h) k = (k + 1) & (ng.cap - 1);
                ng.t[k] = g->t[i];
            }
        ng.n = g->n;
        ng.epoch = g->epoch;
        free(g->t);
        *g = ng;
    }
    size_t k = (h * 0x9E3779B97F4A7C15ull) >> 20 & (g->cap - 1);
    while (g->t[k].h && g->t[k].h != h) k = (k + 1) & (g->cap - 1);
    if (!g->t[k].h) {
        g->t[k].h = h;
        g->t[k].deg = -2;
        g->t[k].mark = 0;
        g->n++;
    }
    return &g->t[k];
}
// neighbours of h (computed on demand); returns degree or -1 if oracle unavailable
static int og_nbrs(OGraph *g, uint64_t h, uint64_t *out) {
    ONode *nd = og_get(g, h);
    if (nd->deg == -2) {
        uint64_t nb[8];
        int n = geo_nbrs(h, nb);
        int want = spec_is_pentagon(h) ? 5 : 6;
        if (n != want)
            nd->deg = -1;
        else {
            nd->deg = (int8_t)n;
            memcpy(nd->nb, nb, n * 8);
        }
    }
    if (nd->deg > 0) memcpy(out, nd->nb, nd->deg * 8);
    return nd->deg;
}
// BFS ball of radius k around h; fills cells/dists (cap entries); returns count, or -1 if some node's
// neighbour oracle was unavailable or symmetric check failed, -2 if cap exceeded
static int og_ball(OGraph *g, uint64_t h, int k, uint64_t *cells, int *dists, int cap) {
    g->epoch++;
    int32_t ep = g->epoch;
    int qh = 0, qt = 0;
    ONode *nd = og_get(g, h);
    nd->mark = ep;
    nd->dist = 0;
    cells[qt] = h;
    dists[qt++] = 0;
    while (qh < qt) {
        uint64_t u = cells[qh];
        int du = dists[qh++];
        if (du >= k) continue;
        uint64_t nb[8];
        int n = og_nbrs(g, u, nb);
        if (n < 0) return -1;
        for (int i = 0; i < n; i++) {
            ONode *v = og_get(g, nb[i]);
            if (v->mark != ep) {
                v->mark = ep;
                v->dist = du + 1;
                if (qt >= cap) return -2;
                cells[qt] = nb[i];
                dists[qt++] = du + 1;
            }
        }
    }
    return qt;
}

// ---- cell geometry relative to its geometric neighbours (used by C08, C10, C11)
typedef struct {
    uint64_t h;
    int res;
    LatLng c;
    CellBoundary cb;
    int nn;
    uint64_t nb[8];
    CellBoundary nbb[8];
    int match[8][10];  // match[k][i] = index in neighbour k's boundary coinciding with vertex i, or -1
    double matchd[8][10];
    int cnt[8], start[8];  // shared stretch with neighbour k: cnt vertices starting at start (cyclic, in this cell's order)
    int topo[10];          // number of neighbours sharing vertex i
    double maxshare;       // largest distance between matched vertices
} CellGeom;
// returns 0 ok, -1 if the boundary/neighbour pipeline misbehaves (oracle unavailable)
static int cellgeom(uint64_t h, CellGeom *g, double tol) {
    g->h = h;
    g->res = spec_res(h);
    g->maxshare = 0;
    if (cellToLatLng(h, &g->c) || cellToBoundary(h, &g->cb) || g->cb.numVerts < 3 || g->cb.numVerts > 10) return -1;
    g->nn = geo_nbrs(h, g->nb);
    if (g->nn < 0) return -1;
    int nv = g->cb.numVerts;
    for (int i = 0; i < nv; i++) g->topo[i] = 0;
    for (int k = 0; k < g->nn; k++) {
        if (cellToBoundary(g->nb[k], &g->nbb[k]) || g->nbb[k].numVerts < 3 || g->nbb[k].numVerts > 10) return -1;
        g->cnt[k] = 0;
        g->start[k] = -1;
        for (int i = 0; i < nv; i++) {
            g->match[k][i] = -1;
            double best = 1e9;
            int bj = -1;
            for (int j = 0; j < g->nbb[k].numVerts; j++) {
                // cheap reject before the accurate distance
                if (fabs(g->cb.verts[i].lat - g->nbb[k].verts[j].lat) > 1e-6) continue;
                double d = adist(g->cb.verts[i], g->nbb[k].verts[j]);
                if (d < best) best = d, bj = j;
            }
            g->matchd[k][i] = best;
            if (bj >= 0 && best <= tol) {
                g->match[k][i] = bj;
                g->cnt[k]++;
                g->topo[i]++;
                if (best > g->maxshare) g->maxshare = best;
            }
        }
        for (int i = 0; i < nv; i++)
            if (g->match[k][i] >= 0 && g->match[k][(i + nv - 1) % nv] < 0) g->start[k] = i;
    }
    return 0;
}
#endif
