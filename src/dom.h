// dom.h -- input domains (alphabets): FULL(r), PENT(r,m), RUN(r), CLOSE, FINE(r), INTS, DBLS, IDX.
#ifndef DOM_H
#define DOM_H
#include <float.h>
#include <limits.h>

#include "geo.h"
#include "spec.h"

typedef struct {
    uint64_t *v;
    size_t n, cap;
} U64Vec;
static void uv_push(U64Vec *a, uint64_t x) {
    if (a->n == a->cap) {
        a->cap = a->cap ? a->cap * 2 : 1024;
        a->v = realloc(a->v, a->cap * 8);
    }
    a->v[a->n++] = x;
}
static int uv_cmp(const void *a, const void *b) {
    uint64_t x = *(const uint64_t *)a, y = *(const uint64_t *)b;
    return x < y ? -1 : x > y;
}
static void uv_sortuniq(U64Vec *a) {
    if (!a->n) return;
    qsort(a->v, a->n, 8, uv_cmp);
    size_t k = 1;
    for (size_t i = 1; i < a->n; i++)
        if (a->v[i] != a->v[k - 1]) a->v[k++] = a->v[i];
    a->n = k;
}
static int uv_has(const U64Vec *a, uint64_t x) {  // requires sorted
    size_t lo = 0, hi = a->n;
    while (lo < hi) {
        size_t m = (lo + hi) / 2;
        if (a->v[m] == x) return 1;
        if (a->v[m] < x)
            lo = m + 1;
        else
            hi = m;
    }
    return 0;
}
static void uv_free(U64Vec *a) {
    free(a->v);
    a->v = NULL;
    a->n = a->cap = 0;
}
static void uv_cb(uint64_t h, void *u) { uv_push((U64Vec *)u, h); }

// FULL(r)
static void dom_full(int r, U64Vec *out) { spec_enum(r, uv_cb, out); }

// PENT(r,m): all descendants at resolution r of the resolution r-m pentagons (m clipped to r)
static void dom_pent(int r, int m, U64Vec *out) {
    if (m > r) m = r;
    for (int p = 0; p < 12; p++) {
        int d[15] = {0};
        uint64_t par = spec_mk(r - m, SPEC_PENT_BC[p], d);
        SpecChildIt it;
        for (spec_child_first(&it, par, r); !it.done; spec_child_next(&it)) uv_push(out, it.h);
    }
}
// RUN(r): b . x^i y^j z with i+j+1 = r (walks to corners/edges of base cells, icosahedron edges)
static void dom_run(int r, int bcstep, int istep, U64Vec *out) {
    if (r == 0) {
        int d[15] = {0};
        for (int bc = 0; bc < 122; bc++) uv_push(out, spec_mk(0, bc, d));
        return;
    }
    for (int bc = 0; bc < 122; bc++) {
        if (!(spec_is_pent_bc(bc) || bc % bcstep == 0)) continue;
        for (int x = 0; x < 7; x++)
            for (int y = 0; y < 7; y++)
                for (int z = 0; z < 7; z++)
                    for (int i = 0; i < r; i++) {
                        // thinned families keep the run splits that are multiples of istep plus the two extreme ones (one leading digit then a
                        // run: the centre chain below a coarse cell; a run then two digits)
                        if (i % istep && i != 1 && i != r - 2) continue;
                        int d[15];
                        for (int k = 0; k < r - 1; k++) d[k] = k < i ? x : y;
                        d[r - 1] = z;
                        uint64_t h = spec_mk(r, bc, d);
                        if (spec_valid(h)) uv_push(out, h);
                    }
    }
}
// CLOSE(S,1): add all geometric neighbours
static void dom_close1(U64Vec *s) {
    size_t n0 = s->n;
    for (size_t i = 0; i < n0; i++) {
        uint64_t nb[8];
        int n = geo_nbrs(s->v[i], nb);
        for (int k = 0; k < n; k++) uv_push(s, nb[k]);
    }
    uv_sortuniq(s);
}
// POLAR(r,k): the cells containing the two poles and everything within k geometric steps of them
static void dom_polar(int r, int k, U64Vec *out) {
    for (int pole = 0; pole < 2; pole++) {
        LatLng g = {pole ? -M_PI / 2 : M_PI / 2, 0.0};
        uint64_t h = 0;
        if (latLngToCell(&g, r, &h)) continue;
        U64Vec s = {0};
        uv_push(&s, h);
        for (int step = 0; step < k; step++) dom_close1(&s);
        for (size_t i = 0; i < s.n; i++) uv_push(out, s.v[i]);
        uv_free(&s);
    }
}
// MIX(r): digit strings cut out of a de Bruijn sequence of order 2 over the digits 0..6 (every ordered pair of digit values occurs, at
// every position as the window slides), under the pentagon base cells and every 7th other base cell: interior cells of no particular
// geometric significance whose digit patterns are varied (bit-manipulation and rotation code is digit-position specific)
static void dom_mix(int r, U64Vec *out) {
    static int db[49 + 16], built = 0;
    if (!built) {
        // de Bruijn B(7,2) by the standard prefer-smallest Lyndon-word construction
        int n = 0, a[4] = {0, 0, 0, 0};
        // generate Lyndon words of length dividing 2 over alphabet 7
        for (int x = 0; x < 7; x++) {
            db[n++] = x;                       // Lyndon word "x" (length 1)
            for (int y = x + 1; y < 7; y++) db[n++] = x, db[n++] = y;  // Lyndon words "xy", x<y (length 2)
        }
        (void)a;
        for (int i = 0; i < 16; i++) db[n + i] = db[i];
        built = 1;
    }
    if (r == 0) return;
    for (int bc = 0; bc < 122; bc++) {
        if (!(spec_is_pent_bc(bc) || bc % 7 == 3)) continue;
        for (int off = 0; off < 49; off += (r < 3 ? 7 : 1)) {
            int d[15];
            for (int k = 0; k < 15; k++) d[k] = db[off + k];
            uint64_t h = spec_mk(r, bc, d);
            if (spec_valid(h)) uv_push(out, h);
        }
    }
}
// AXIS(r): hexagons with two consecutive boundary vertices whose latitudes (or longitudes) are the IDENTICAL double: an edge that runs exactly
// east-west (north-south) in floating point. Such ties exist only at the finest resolutions and only along curves; they are found by a
// directed search: from a start cell walk along one lattice axis, bisect the sign change of (lat[k+1]-lat[k]) over a span of +-L cells, and
// keep the straddling cells where the difference is exactly 0; repeated for many parallel lines. Inputs may be found with the library's own
// local IJ functions; what is then checked on these cells is judged independently as for every other family.
static int dom_axis_g(uint64_t h, int k, int useLng, double *g) {
    CellBoundary cb;
    if (cellToBoundary(h, &cb) || cb.numVerts != 6) return -1;
    LatLng a = cb.verts[k], b = cb.verts[(k + 1) % 6];
    *g = useLng ? b.lng - a.lng : b.lat - a.lat;
    if (useLng && fabs(*g) > 1) return -1;  // antimeridian
    return 0;
}
static int dom_axis_at(uint64_t s, CoordIJ o, int64_t t, int64_t u, int k, int useLng, uint64_t *h, double *g) {
    CoordIJ ij = {(int)(o.i + t), (int)(o.j + u)};
    if (localIjToCell(s, &ij, 0, h) || !spec_valid(*h)) return -1;
    return dom_axis_g(*h, k, useLng, g);
}
// part/nparts: the start base cells are dealt round-robin to nparts searchers (workers)
static void dom_axis(int r, int lines, int part, int nparts, U64Vec *out) {
    if (r < 12) return;
    int startno = 0;
    int64_t L = r == 15 ? 300000 : r == 14 ? 120000 : r == 13 ? 45000 : 17000;
    for (int bc = 1; bc < 122; bc += 5) {
        if (spec_is_pent_bc(bc)) continue;
        if (startno++ % nparts != part) continue;
        int d0[15] = {0};
        uint64_t s = spec_mk(r, bc, d0);
        CoordIJ o;
        if (cellToLocalIj(s, s, 0, &o)) continue;
        for (int k = 0; k < 3; k++)
            for (int useLng = 0; useLng < 2; useLng++) {
                uint64_t h;
                double glo, ghi;
                if (dom_axis_at(s, o, -L, 0, k, useLng, &h, &glo) || dom_axis_at(s, o, L, 0, k, useLng, &h, &ghi)) continue;
                if ((glo > 0) == (ghi > 0) && glo != 0 && ghi != 0) continue;  // no crossing along this line
                for (int q = 0; q < lines; q++) {
                    int64_t u = (int64_t)(q - lines / 2) * 3, lo = -L, hi = L;
                    double a, b;
                    if (dom_axis_at(s, o, lo, u, k, useLng, &h, &a) || dom_axis_at(s, o, hi, u, k, useLng, &h, &b)) continue;
                    if ((a > 0) == (b > 0) && a != 0 && b != 0) continue;
                    int fail = 0;
                    while (hi - lo > 1 && !fail) {
                        int64_t mid = (lo + hi) / 2;
                        double m;
                        // a cell whose boundary cannot be evaluated as a plain hexagon is stepped over (the cells at the crossing are all kept below)
                        if (dom_axis_at(s, o, mid, u, k, useLng, &h, &m) && (mid + 1 >= hi || dom_axis_at(s, o, ++mid, u, k, useLng, &h, &m))) {
                            fail = 1;
                            break;
                        }
                        if (m == 0) {
                            lo = mid - 1, hi = mid + 1;
                            break;
                        }
                        if ((m > 0) == (a > 0))
                            lo = mid;
                        else
                            hi = mid;
                    }
                    if (fail) continue;
                    // keep every cell at the zero crossing (exact ties are among them; they cannot be told apart here without trusting the
                    // boundary of exactly those cells)
                    for (int64_t t = lo - 1; t <= hi + 1; t++) {
                        CoordIJ ij = {(int)(o.i + t), (int)(o.j + u)};
                        if (!localIjToCell(s, &ij, 0, &h) && spec_valid(h)) uv_push(out, h);
                    }
                }
            }
    }
    uv_sortuniq(out);
}
// FINE(r): level 0 = whole family closed under one neighbour step; higher levels are thinned; all levels include POLAR(r,3) and MIX(r)
//   level 1: RUN over pentagon base cells + every 5th, run lengths in steps of 2
//   level 2: RUN over pentagon base cells + every 17th, run lengths in steps of 4, not closed
static void dom_fine_raw(int r, int level, U64Vec *out) {
    dom_pent(r, level >= 2 ? 1 : 2, out);
    dom_polar(r, 3, out);
    dom_mix(r, out);
    if (level == 0)
        dom_run(r, 1, 1, out);
    else if (level == 1)
        dom_run(r, 5, 2, out);
    else
        dom_run(r, 17, r > 6 ? 4 : 2, out);
    uv_sortuniq(out);
}
static void dom_fine(int r, int level, U64Vec *out) {
    dom_pent(r, level >= 2 ? 1 : 2, out);
    dom_polar(r, 3, out);
    dom_mix(r, out);
    if (level == 0)
        dom_run(r, 1, 1, out);
    else if (level == 1)
        dom_run(r, 5, 2, out);
    else
        dom_run(r, 17, r > 6 ? 4 : 2, out);
    uv_sortuniq(out);
    if (level <= 1) dom_close1(out);
}

static const int64_t DOM_INTS[] = {INT_MIN, -2, -1, 0, 1, 2, 5, 14, 15, 16, 17, 100, INT_MAX};
#define DOM_NINTS ((int)(sizeof DOM_INTS / sizeof *DOM_INTS))

static int dom_dbls(double *out) {
    int n = 0;
    double base[] = {0.0,    DBL_MIN, 1e-300, M_PI / 2, M_PI, 2 * M_PI, nextafter(M_PI / 2, 0), nextafter(M_PI / 2, 4),
                     1e20,   DBL_MAX, 1.0,    0.5,      1e-9};
    out[n++] = NAN;
    out[n++] = INFINITY;
    out[n++] = -INFINITY;
    for (unsigned i = 0; i < sizeof base / sizeof *base; i++) {
        out[n++] = base[i];
        out[n++] = -base[i];
    }
    return n;
}

// ---- icosahedron derived from geometry: vertices = centres of the 12 res-0 pentagons
typedef struct {
    double x, y, z;
} DV3;
static DV3 dv3(LatLng g) { return (DV3){cos(g.lat) * cos(g.lng), cos(g.lat) * sin(g.lng), sin(g.lat)}; }
static LatLng dll(DV3 v) {
    double n = sqrt(v.x * v.x + v.y * v.y + v.z * v.z);
    return (LatLng){asin(v.z / n), atan2(v.y, v.x)};
}
static double ddot(DV3 a, DV3 b) { return a.x * b.x + a.y * b.y + a.z * b.z; }
typedef struct {
    DV3 vert[12];
    int nedges, nfaces;
    int edge[30][2];
    int face[20][3];
    DV3 facec[20];
} Icosa;
static int dom_icosa(Icosa *ic) {
    int d[15] = {0};
    for (int i = 0; i < 12; i++) {
        LatLng g;
        if (cellToLatLng(spec_mk(0, SPEC_PENT_BC[i], d), &g)) return -1;
        ic->vert[i] = dv3(g);
    }
    ic->nedges = ic->nfaces = 0;
    for (int i = 0; i < 12; i++)
        for (int j = i + 1; j < 12; j++) {
            if (ddot(ic->vert[i], ic->vert[j]) < 0.4) continue;
            if (ic->nedges >= 30) return -1;
            ic->edge[ic->nedges][0] = i;
            ic->edge[ic->nedges++][1] = j;
            for (int k = j + 1; k < 12; k++) {
                if (ddot(ic->vert[i], ic->vert[k]) < 0.4 || ddot(ic->vert[j], ic->vert[k]) < 0.4) continue;
                if (ic->nfaces >= 20) return -1;
                ic->face[ic->nfaces][0] = i, ic->face[ic->nfaces][1] = j, ic->face[ic->nfaces][2] = k;
                DV3 m = {ic->vert[i].x + ic->vert[j].x + ic->vert[k].x, ic->vert[i].y + ic->vert[j].y + ic->vert[k].y,
                         ic->vert[i].z + ic->vert[j].z + ic->vert[k].z};
                double n = sqrt(ddot(m, m));
                ic->facec[ic->nfaces++] = (DV3){m.x / n, m.y / n, m.z / n};
            }
        }
    return ic->nedges == 30 && ic->nfaces == 20 ? 0 : -1;
}
// EDGE(r): cells containing nper points spread along each of the 30 icosahedron edges (denser near the
// two end vertices), closed under `close` neighbour steps
static void dom_edge(int r, int nper, int close, U64Vec *out) {
    Icosa ic;
    if (dom_icosa(&ic)) return;
    U64Vec s = {0};
    for (int e = 0; e < 30; e++) {
        DV3 a = ic.vert[ic.edge[e][0]], b = ic.vert[ic.edge[e][1]];
        for (int i = 0; i <= nper; i++) {
            double t = (double)i / nper;
            // half of the points uniformly, half concentrated near the ends (t^3 mapping)
            if (i % 2) t = t < 0.5 ? 4 * t * t * t : 1 - 4 * (1 - t) * (1 - t) * (1 - t);
            DV3 m = {a.x * (1 - t) + b.x * t, a.y * (1 - t) + b.y * t, a.z * (1 - t) + b.z * t};
            LatLng g = dll(m);
            uint64_t h;
            if (latLngToCell(&g, r, &h) == 0) uv_push(&s, h);
        }
    }
    uv_sortuniq(&s);
    for (int k = 0; k < close; k++) dom_close1(&s);
    for (size_t i = 0; i < s.n; i++) uv_push(out, s.v[i]);
    uv_free(&s);
}

// MERID(r): the cells where the meridian through each of the 20 face centres (due north / due south of the centre: azimuth exactly 0 or
// pi in the face's polar coordinates) leaves its face, with `close` rings around them. Found by bisection on "nearest face centre".
static void dom_merid(int r, int close, U64Vec *out) {
    Icosa ic;
    if (dom_icosa(&ic)) return;
    for (int f = 0; f < 20; f++) {
        LatLng c = dll(ic.facec[f]);
        for (int dir = -1; dir <= 1; dir += 2) {
            double lo = 0, hi = 0.75;  // the inscribed radius of a face is 0.65 rad, the circumscribed one 1.11 rad
            if (fabs(c.lat + dir * hi) > M_PI / 2) continue;  // the meridian runs over a pole first: skip
            int changed = 0;
            for (int it = 0; it < 60; it++) {
                double mid = (lo + hi) / 2;
                LatLng p = {c.lat + dir * mid, c.lng};
                DV3 v = dv3(p);
                int best = 0;
                for (int g = 1; g < 20; g++)
                    if (ddot(v, ic.facec[g]) > ddot(v, ic.facec[best])) best = g;
                if (best == f)
                    lo = mid;
                else
                    hi = mid, changed = 1;
            }
            if (!changed) continue;
            U64Vec s = {0};
            for (int side = 0; side < 2; side++) {
                LatLng p = {c.lat + dir * (side ? hi + 1e-12 : lo - 1e-12), c.lng};
                uint64_t h;
                if (!latLngToCell(&p, r, &h)) uv_push(&s, h);
            }
            uv_sortuniq(&s);
            for (int k = 0; k < close; k++) dom_close1(&s);
            for (size_t i = 0; i < s.n; i++) uv_push(out, s.v[i]);
            uv_free(&s);
        }
    }
}
// ---- IDX: hostile index alphabet. size 0 = small (~7k values), 1 = large
// large: 1 = large, 0 = small, -1 = tiny (no two-bit flips)
static void dom_idx_bases(int large, U64Vec *b) {
    if (large < 0) large = 0;
    static const int bcs_s[] = {0, 4, 14, 58, 117, 121}, bcs_l[] = {0, 1, 4, 14, 20, 38, 58, 63, 97, 117, 120, 121};
    const int *bcs = large ? bcs_l : bcs_s;
    int nb = large ? 12 : 6;
    for (int bi = 0; bi < nb; bi++)
        for (int res = 0; res <= 15; res += (large ? 1 : 3)) {
            for (int pat = 0; pat < (large ? 5 : 3); pat++) {
                int d[15];
                for (int i = 0; i < res; i++)
                    d[i] = pat == 0 ? 0 : pat == 1 ? (i == res - 1 ? 2 : 0) : pat == 2 ? 6 - (i % 5) : pat == 3 ? (i == 0 ? 5 : 0) : 3;
                uint64_t h = spec_mk(res, bcs[bi], d);
                if (spec_valid(h)) uv_push(b, h);
                if (res == 0) break;
            }
        }
    uv_sortuniq(b);
}
static void dom_idx(int large, U64Vec *out) {
    U64Vec b = {0};
    dom_idx_bases(large, &b);
    for (size_t i = 0; i < b.n; i++) {
        uint64_t h = b.v[i];
        uv_push(out, h);
        for (int x = 0; x < 64; x++) {
            uv_push(out, h ^ (1ull << x));
            if (large > 0 || (large == 0 && i % 4 == 0))
                for (int y = x + 1; y < 64; y += (large ? 1 : 5)) uv_push(out, h ^ (1ull << x) ^ (1ull << y));
        }
        for (int m = 0; m < 16; m++) {
            uint64_t hm = (h & ~((uint64_t)15 << 59)) | ((uint64_t)m << 59);
            uv_push(out, hm);
            if (m == 1 || m == 2 || m == 4)
                for (int rv = 0; rv < 8; rv++) uv_push(out, hm | ((uint64_t)rv << 56));
        }
        for (int r = 1; r <= 15; r++) {
            uv_push(out, spec_set_digit(h, r, 7));
            uv_push(out, spec_set_digit(h, r, 1));
            uv_push(out, spec_set_digit(h, r, 0));
        }
        for (int bc = 118; bc < 128; bc++) uv_push(out, (h & ~((uint64_t)127 << 45)) | ((uint64_t)bc << 45));
        for (int r = 0; r <= 15; r++) uv_push(out, (h & ~((uint64_t)15 << 52)) | ((uint64_t)r << 52));
    }
    uv_push(out, 0);
    uv_push(out, ~0ull);
    uv_push(out, 1);
    uv_push(out, 1ull << 63);
    uv_push(out, (1ull << 63) - 1);
    uv_push(out, 0x0800000000000000ull);
    uv_push(out, 0x08001fffffffffffull);
    uv_free(&b);
    uv_sortuniq(out);
}
#endif
