// BUILD: variant=alloc
// C17 -- allocation failure is reported cleanly and nothing leaks (fault enumeration).
#include "mc.h"
#include "dom.h"
#include "poly.h"
#include "ledger.h"

const char *MC_PROPERTY = "C17";
const char *MC_RULE =
    "For every input of the alphabet a clean run records the number n of allocation calls (ledger allocator behind H3_ALLOC_PREFIX); the "
    "clean run must leave the ledger empty (success and error returns), free nothing twice, and produce the return code and output buffer "
    "of the same call on a second copy of the library built with the default allocator (ref_ prefix). Then EVERY fault is enumerated: "
    "allocation i fails (i = 1..n), all allocations from i on fail (i = 1..n), and every pair i<j fails (n <= 14): the call must return "
    "E_MEMORY_ALLOC, the ledger must be empty, no double/foreign free, canaries intact. Violations are keyed by (input, fault mode, i, j). "
    "Inputs: gridDisk/gridDiskDistances (pentagon, its neighbours, 2 rings away, plain hexagon; k=1..3; several resolutions; distances "
    "NULL and non-NULL), areNeighborCells (cells next to pentagons x cells within 2 steps), compactCells (multi-round sub-trees, partial "
    "groups, duplicate, invalid cell, reserved bits), polygonToCells / polygonToCellsExperimental (4 modes + bad flags) / "
    "maxPolygonToCellsSizeExperimental over catalogue polygons with 0..2 holes at pentagons and elsewhere. Non-trivial: inputs with n >= 1.";
const char *MC_ASSUME[] = {"allocation indexes are deterministic for a given input (checked: faulted runs reach the armed index)", NULL};
const char *MC_CTR_NAMES[] = {"inputs", "inputs_that_allocate", "faulted_runs", "clean_runs", "max_allocations_per_call", "faults_not_reached", NULL};
const char *MC_MAX_NAMES[] = {"allocations_per_call", NULL};
#define CANARY 0xC0FFEE0DDEADBEEFull
enum { OP_DISK, OP_NBR, OP_COMPACT, OP_POLY, OP_DISK1, OP_NBR1, OP_COMPACT1, OP_POLY1 };

// reference library (default allocator)
H3Error ref_gridDisk(H3Index, int, H3Index *);
H3Error ref_gridDiskDistances(H3Index, int, H3Index *, int *);
H3Error ref_areNeighborCells(H3Index, H3Index, int *);
H3Error ref_compactCells(const H3Index *, H3Index *, const int64_t);
H3Error ref_polygonToCells(const GeoPolygon *, int, uint32_t, H3Index *);
H3Error ref_polygonToCellsExperimental(const GeoPolygon *, int, uint32_t, int64_t, H3Index *);
H3Error ref_maxPolygonToCellsSizeExperimental(const GeoPolygon *, int, uint32_t, int64_t *);
H3Error ref_maxPolygonToCellsSize(const GeoPolygon *, int, uint32_t, int64_t *);

// ---- a "call" abstraction: runs the function under test into out buffers, returns code
typedef struct {
    int kind;  // 0 disk 1 nbr 2 compact 3 poly
    // disk
    uint64_t origin;
    int k, withdist;
    // nbr
    uint64_t a, b;
    // compact
    uint64_t *set;
    int64_t nset;
    // poly
    Poly poly;
    int fn;
    uint32_t flags;
    int64_t cap;
    // outputs
    uint64_t *out;
    int *dist;
    int64_t nout;
    int iout;
    int64_t lout;
} Call;
static H3Error call_run(Call *c, int ref) {
    for (int64_t i = 0; i < c->nout; i++) c->out[i] = 0;
    c->out[c->nout] = CANARY;
    if (c->dist) {
        memset(c->dist, 0, c->nout * sizeof(int));
        c->dist[c->nout] = 0x5A5A5A5A;
    }
    c->iout = -99;
    c->lout = -99;
    switch (c->kind) {
        case 0:
            if (c->withdist) return ref ? ref_gridDiskDistances(c->origin, c->k, c->out, c->dist) : gridDiskDistances(c->origin, c->k, c->out, c->dist);
            return ref ? ref_gridDisk(c->origin, c->k, c->out) : gridDisk(c->origin, c->k, c->out);
        case 1: return ref ? ref_areNeighborCells(c->a, c->b, &c->iout) : areNeighborCells(c->a, c->b, &c->iout);
        case 2: return ref ? ref_compactCells(c->set, c->out, c->nset) : compactCells(c->set, c->out, c->nset);
        default:
            if (c->fn == 0) return ref ? ref_polygonToCells(&c->poly.gp, c->poly.res, c->flags, c->out) : polygonToCells(&c->poly.gp, c->poly.res, c->flags, c->out);
            if (c->fn == 1) return ref ? ref_polygonToCellsExperimental(&c->poly.gp, c->poly.res, c->flags, c->cap, c->out) : polygonToCellsExperimental(&c->poly.gp, c->poly.res, c->flags, c->cap, c->out);
            return ref ? ref_maxPolygonToCellsSizeExperimental(&c->poly.gp, c->poly.res, c->flags, &c->lout) : maxPolygonToCellsSizeExperimental(&c->poly.gp, c->poly.res, c->flags, &c->lout);
    }
}
// one faulted (or clean) run with its oracle. mode: 0 clean, 1 single i, 2 from i, 3 pair (i,j). returns allocations seen or -1 on violation
static long run_fault(Call *c, int mode, long i, long j, const char *what) {
    lg_reset();
    lg_arm(mode == 1 || mode == 3 ? i : 0, mode == 3 ? j : 0, mode == 2 ? i : 0);
    mc_trans(1);
    H3Error e = call_run(c, 0);
    long n = lg_nalloc;
    lg_arm(0, 0, 0);
    if (c->out[c->nout] != CANARY || (c->dist && c->dist[c->nout] != 0x5A5A5A5A)) {
        mc_fail("%s: wrote beyond the caller's buffer (fault mode %d i=%ld j=%ld)", what, mode, i, j);
        return -1;
    }
    if (lg_errors) {
        mc_fail("%s: %ld double/foreign frees (fault mode %d i=%ld j=%ld, returned %d)", what, lg_errors, mode, i, j, e);
        return -1;
    }
    if (lg_live) {
        mc_fail("%s: %ld blocks still allocated at return (fault mode %d i=%ld j=%ld, returned %d)", what, lg_live, mode, i, j, e);
        return -1;
    }
    if (mode == 0) {
        mc_ctr(3, 1);
        // compare with the default-allocator build
        uint64_t *o1 = malloc((c->nout + 1) * 8);
        int *d1 = c->dist ? malloc((c->nout + 1) * sizeof(int)) : NULL;
        memcpy(o1, c->out, c->nout * 8);
        if (d1) memcpy(d1, c->dist, c->nout * sizeof(int));
        int i1 = c->iout;
        int64_t l1 = c->lout;
        H3Error e2 = call_run(c, 1);
        int same = e == e2 && memcmp(o1, c->out, c->nout * 8) == 0 && (!d1 || memcmp(d1, c->dist, c->nout * sizeof(int)) == 0) && i1 == c->iout && l1 == c->lout;
        free(o1);
        free(d1);
        if (!same) {
            mc_fail("%s: result with the custom allocator (code %d) differs from the default-allocator build (code %d)", what, e, e2);
            return -1;
        }
        return n;
    }
    mc_ctr(2, 1);
    long first = mode == 2 ? i : i;
    if (n < first) {
        mc_ctr(5, 1);  // the armed allocation was never requested (allocation count not deterministic?)
        mc_fail("%s: armed allocation %ld was never requested (only %ld allocations; fault mode %d)", what, first, n, mode);
        return -1;
    }
    if (e != E_MEMORY_ALLOC) {
        mc_fail("%s: allocation %ld%s failed but the call returned %d instead of E_MEMORY_ALLOC", what, i, mode == 2 ? " and all later ones" : mode == 3 ? " (and a later one)" : "", e);
        return -1;
    }
    return n;
}
static void enumerate(Call *c, int subop, int nargs, McArg *args, const char *what) {
    // args[nargs..nargs+2] = mode, i, j
    args[nargs] = I(0), args[nargs + 1] = I(0), args[nargs + 2] = I(0);
    mc_ctr(0, 1);
    McCase save = mc_w->cur;
    McCase sub;
    memset(&sub, 0, sizeof sub);
    sub.op = subop;
    for (int q = 0; q < nargs + 3; q++) sub.a[q] = args[q];
    mc_w->cur = sub;
    long n = run_fault(c, 0, 0, 0, what);
    mc_w->cur = save;
    if (n < 0) return;
    mc_max(0, (double)n);
    if (n) mc_ctr(1, 1), mc_nontrivial();
    for (int mode = 1; mode <= 3; mode++)
        for (long i = 1; i <= n; i++)
            for (long j = (mode == 3 ? i + 1 : 0); j <= (mode == 3 ? (n <= 14 ? n : i) : 0); j++) {
                sub.a[nargs] = I(mode), sub.a[nargs + 1] = I(i), sub.a[nargs + 2] = I(j);
                mc_w->cur = sub;
                long r = run_fault(c, mode, i, j, what);
                mc_w->cur = save;
                if (r < 0) return;
            }
    mc_states(1);
}
static void single(Call *c, const McArg *a, int nargs, const char *what) {
    mc_nontrivial();
    run_fault(c, (int)a[nargs].i, a[nargs + 1].i, a[nargs + 2].i, what);
}
// ---- input builders
static void mk_disk(Call *c, uint64_t origin, int k, int withdist) {
    memset(c, 0, sizeof *c);
    c->kind = 0, c->origin = origin, c->k = k, c->withdist = withdist;
    c->nout = 3 * k * (k + 1) + 1;
    c->out = malloc((c->nout + 1) * 8);
    c->dist = malloc((c->nout + 1) * sizeof(int));
}
static void mk_nbr(Call *c, uint64_t a, uint64_t b) {
    memset(c, 0, sizeof *c);
    c->kind = 1, c->a = a, c->b = b, c->nout = 0;
    c->out = malloc(8);
}
// compact inputs: kind 0 full sub-tree depth param; 1 sub-tree minus one; 2 two sub-trees of siblings + stray; 3 with duplicate; 4 with invalid cell; 5 reserved bits; 6 all children of all 7 children minus one group
static void mk_compact(Call *c, int kind, uint64_t root, int param) {
    memset(c, 0, sizeof *c);
    c->kind = 2;
    U64Vec s = {0};
    SpecChildIt it;
    int depth = param < 1 ? 1 : param;
    if (kind >= 7) {
        // kinds 7..9: full descendant sets at res `depth` of N = root base cells (consecutive from 0 / from 117 downwards / every 5th):
        // multi-round compactions that reach resolution 0 with N cells left in the last round
        int N = (int)root, d0[15] = {0};
        for (int b = 0; b < N && b < 122; b++) {
            int bc = kind == 7 ? b : kind == 8 ? 121 - b : (b * 5) % 122;
            uint64_t r0 = spec_mk(0, bc, d0);
            for (spec_child_first(&it, r0, depth); !it.done; spec_child_next(&it)) uv_push(&s, it.h);
        }
        if (kind == 9 && s.n > 3) s.n -= 1;  // last group incomplete
        c->set = s.v;
        c->nset = s.n;
        c->nout = s.n;
        c->out = malloc((c->nout + 1) * 8);
        return;
    }
    if (spec_res(root) + depth > 15) depth = 15 - spec_res(root);
    for (spec_child_first(&it, root, spec_res(root) + depth); !it.done; spec_child_next(&it)) uv_push(&s, it.h);
    if (kind == 1 && s.n > 1) s.n--;
    if (kind == 2) {
        size_t keep = s.n - s.n / 7 + 1;
        if (keep < s.n) s.n = keep;
    }
    if (kind == 3 && s.n > 1) s.v[s.n - 1] = s.v[0];
    if (kind == 4 && s.n > 1) s.v[s.n / 2] = 0x5;
    if (kind == 5 && s.n > 1) s.v[s.n / 2] |= (uint64_t)3 << 56;
    if (kind == 6 && s.n > 7) {
        // reverse order
        for (size_t i = 0; i < s.n / 2; i++) {
            uint64_t t = s.v[i];
            s.v[i] = s.v[s.n - 1 - i];
            s.v[s.n - 1 - i] = t;
        }
    }
    c->set = s.v;
    c->nset = s.n;
    c->nout = s.n;
    c->out = malloc((c->nout + 1) * 8);
}
static int mk_poly(Call *c, int fn, int shape, int anchor, int scale, int res, uint32_t flags) {
    memset(c, 0, sizeof *c);
    int capmode = scale >> 4;  // 0 full capacity; 1 count-1; 2 count/2; 3 one slot; 4 zero (polygonToCellsExperimental only)
    scale &= 15;
    c->kind = 3, c->fn = fn, c->flags = flags;
    int callres = res;
    if (res < 0 || res > 15) res = 5;  // resolution outside the domain: polygon built for res 5, call made with the bad resolution
    if (shape >= 100) {
        // degenerate polygons (error-path / edge inputs): 100 empty outer loop, 101 one vertex, 102 two vertexes, 103 triangle with an empty hole,
        // 104 empty outer loop with a (non-empty) hole, 105 triangle + two holes one of which is empty
        if (poly_build(6, anchor, scale, res, &c->poly)) return -1;
        c->poly.res = res;
        if (shape == 100) c->poly.outer.n = 0, c->poly.nh = 0;
        if (shape == 101) c->poly.outer.n = 1, c->poly.nh = 0;
        if (shape == 102) c->poly.outer.n = 2, c->poly.nh = 0;
        if (shape == 103) c->poly.outer.n = 3, c->poly.nh = 1, c->poly.holes[0].n = 0;
        if (shape == 104) c->poly.outer.n = 0, c->poly.nh = 1;
        if (shape == 105) {
            c->poly.outer.n = 3, c->poly.nh = 2;
            c->poly.holes[1] = c->poly.holes[0];
            c->poly.holes[0].n = 0;
        }
        // holes that cannot be traced although the outer loop is fine: 106 NaN vertex, 107 infinite vertex, 108 hole 40x larger than the
        // outer loop, 109 hole far outside the outer loop, 110 two holes of which the second has a NaN vertex
        if (shape == 106) c->poly.holes[0].v[1].lat = NAN;
        if (shape == 107) c->poly.holes[0].v[2].lng = INFINITY;
        if (shape == 108 || shape == 109) {
            LatLng ctr = c->poly.outer.v[0];
            for (int i = 0; i < c->poly.holes[0].n; i++) {
                if (shape == 108) {
                    c->poly.holes[0].v[i].lat = ctr.lat + (c->poly.holes[0].v[i].lat - ctr.lat) * 40;
                    c->poly.holes[0].v[i].lng = ctr.lng + (c->poly.holes[0].v[i].lng - ctr.lng) * 40;
                } else
                    c->poly.holes[0].v[i].lat = -c->poly.holes[0].v[i].lat, c->poly.holes[0].v[i].lng += 1.0;
            }
        }
        if (shape == 110) {
            c->poly.nh = 2;
            c->poly.holes[1] = c->poly.holes[0];
            c->poly.holes[1].v[0].lng = NAN;
        }
        for (int k = 0; k < c->poly.nh; k++) c->poly.hl[k].numVerts = c->poly.holes[k].n;
        c->poly.gp.geoloop.numVerts = c->poly.outer.n;
        c->poly.gp.numHoles = c->poly.nh;
    } else if (poly_build(shape, anchor, scale, res, &c->poly))
        return -1;
    // poly contains pointers into itself: fix up after the struct copy
    for (int k = 0; k < c->poly.nh; k++) c->poly.hl[k].verts = c->poly.holes[k].v;
    c->poly.gp.geoloop.verts = c->poly.outer.v;
    c->poly.gp.holes = c->poly.nh ? c->poly.hl : NULL;
    int64_t sz = 0;
    if (callres != res) {
        if (capmode) return -1;
        c->poly.res = callres;
        c->nout = c->cap = 16;
        c->out = malloc(17 * 8);
        return 0;
    }
    H3Error e = fn == 0 ? ref_maxPolygonToCellsSize(&c->poly.gp, res, 0, &sz) : ref_maxPolygonToCellsSizeExperimental(&c->poly.gp, res, flags <= 3 ? flags : 0, &sz);
    if (e || sz > 20000) return -1;
    if (fn == 2) sz = 0;
    if (capmode) {
        if (fn != 1 || flags > 3) return -1;
        // true number of cells with the reference build, then a capacity below it
        uint64_t *tmp = calloc(sz + 1, 8);
        int64_t cnt = 0;
        if (ref_polygonToCellsExperimental(&c->poly.gp, res, flags, sz, tmp) == 0)
            for (int64_t i = 0; i < sz; i++) cnt += tmp[i] != 0;
        free(tmp);
        if (cnt < 2) return -1;
        sz = capmode == 1 ? cnt - 1 : capmode == 2 ? cnt / 2 : capmode == 3 ? 1 : 0;
    }
    c->nout = sz;
    c->cap = sz;
    c->out = malloc((sz + 1) * 8);
    return 0;
}
static void call_free(Call *c) {
    free(c->out);
    free(c->dist);
    free(c->set);
}
// ---- ops (batch = enumerate all faults; *1 = one fault, used for keys / replay)
static void op_disk(const McArg *a) {
    Call c;
    mk_disk(&c, a[0].u, (int)a[1].i, (int)a[2].i);
    McArg args[8] = {a[0], a[1], a[2]};
    enumerate(&c, OP_DISK1, 3, args, a[2].i ? "gridDiskDistances" : "gridDisk");
    call_free(&c);
}
static void op_disk1(const McArg *a) {
    Call c;
    mk_disk(&c, a[0].u, (int)a[1].i, (int)a[2].i);
    single(&c, a, 3, a[2].i ? "gridDiskDistances" : "gridDisk");
    call_free(&c);
}
static void op_nbr(const McArg *a) {
    Call c;
    mk_nbr(&c, a[0].u, a[1].u);
    McArg args[8] = {a[0], a[1]};
    enumerate(&c, OP_NBR1, 2, args, "areNeighborCells");
    call_free(&c);
}
static void op_nbr1(const McArg *a) {
    Call c;
    mk_nbr(&c, a[0].u, a[1].u);
    single(&c, a, 2, "areNeighborCells");
    call_free(&c);
}
static void op_compact(const McArg *a) {
    Call c;
    mk_compact(&c, (int)a[0].i, a[1].u, (int)a[2].i);
    McArg args[8] = {a[0], a[1], a[2]};
    enumerate(&c, OP_COMPACT1, 3, args, "compactCells");
    call_free(&c);
}
static void op_compact1(const McArg *a) {
    Call c;
    mk_compact(&c, (int)a[0].i, a[1].u, (int)a[2].i);
    single(&c, a, 3, "compactCells");
    call_free(&c);
}
static const char *PFN[3] = {"polygonToCells", "polygonToCellsExperimental", "maxPolygonToCellsSizeExperimental"};
static void op_poly(const McArg *a) {
    Call c;
    if (mk_poly(&c, (int)a[0].i, (int)a[1].i, (int)a[2].i, (int)a[3].i, (int)a[4].i, (uint32_t)a[5].i)) return;
    McArg args[10] = {a[0], a[1], a[2], a[3], a[4], a[5]};
    enumerate(&c, OP_POLY1, 6, args, PFN[a[0].i]);
    call_free(&c);
}
static void op_poly1(const McArg *a) {
    Call c;
    if (mk_poly(&c, (int)a[0].i, (int)a[1].i, (int)a[2].i, (int)a[3].i, (int)a[4].i, (uint32_t)a[5].i)) return;
    single(&c, a, 6, PFN[a[0].i]);
    call_free(&c);
}
const McOp MC_OPS[] = {{"disk", "hii", op_disk},         {"nbr", "hh", op_nbr},         {"compact", "ihi", op_compact},         {"poly", "iiiiii", op_poly},
                       {"disk1", "hiiiii", op_disk1},    {"nbr1", "hhiii", op_nbr1},    {"compact1", "ihiiii", op_compact1},    {"poly1", "iiiiiiiii", op_poly1}};
const int MC_NOPS = 8;

static U64Vec g_dom;
static void ph_disk(void *u) {
    uint64_t idx = 0;
    for (size_t i = 0; i < g_dom.n; i++)
        for (int k = 1; k <= (mc_thorough ? 9 : 7); k++)
            for (int wd = 0; wd < 2; wd++, idx++) {
                if (!mc_mine(idx)) continue;
                if (mc_expired()) return;
                MC_RUN(OP_DISK, H(g_dom.v[i]), I(k), I(wd));
            }
}
// origins that are not valid cells (digit 7 inside the resolution, base cell > 121, deleted sub-sequence, wrong mode, reserved bits): the
// fast walk fails, the fallback allocates and then errors -- the error path must free and must behave like the default-allocator build
static void ph_disk_invalid(void *u) {
    U64Vec bad = {0};
    int d7[15] = {0}, dk[15] = {0};
    for (int r = 1; r <= 15; r += 1) {
        for (int pos = 0; pos < r; pos += 1) {
            memset(d7, 0, sizeof d7);
            d7[pos] = 7;
            uv_push(&bad, spec_mk(r, 20, d7));   // digit 7 inside the resolution, hexagon base cell
            uv_push(&bad, spec_mk(r, 4, d7));    // ... pentagon base cell
            memset(dk, 0, sizeof dk);
            dk[pos] = 1;
            uv_push(&bad, spec_mk(r, 4, dk));    // deleted sub-sequence (first non-zero digit 1 under a pentagon)
            uv_push(&bad, spec_mk(r, 117, dk));
        }
        int d3[15] = {3, 3, 3, 3, 3, 3, 3, 3, 3, 3, 3, 3, 3, 3, 3};
        uint64_t h = spec_mk(r, 20, d3);
        uv_push(&bad, (h & ~((uint64_t)0x7f << 45)) | ((uint64_t)122 << 45));  // base cell 122
        uv_push(&bad, (h & ~((uint64_t)0x7f << 45)) | ((uint64_t)127 << 45));  // base cell 127
        uv_push(&bad, h | ((uint64_t)1 << 63));                                 // high bit
        uv_push(&bad, h ^ ((uint64_t)3 << 59));                                 // mode 2
        uv_push(&bad, h | ((uint64_t)5 << 56));                                 // reserved bits
    }
    uv_push(&bad, 0);
    uv_push(&bad, ~(uint64_t)0);
    uint64_t idx = 0;
    for (size_t i = 0; i < bad.n; i++)
        for (int k = 0; k <= 3; k++)
            for (int wd = 0; wd < 2; wd++, idx++) {
                if (!mc_mine(idx)) continue;
                MC_RUN(OP_DISK, H(bad.v[i]), I(k), I(wd));
            }
}
static void ph_nbr(void *u) {
    uint64_t idx = 0;
    OGraph G;
    og_init(&G, 1 << 12);
    static uint64_t bc[64];
    static int bd[64];
    for (size_t i = 0; i < g_dom.n; i++) {
        if (!mc_mine(i)) continue;
        if (mc_expired()) return;
        int n = og_ball(&G, g_dom.v[i], 2, bc, bd, 64);
        for (int q = 0; q < n; q++, idx++) MC_RUN(OP_NBR, H(g_dom.v[i]), H(bc[q]));
    }
}
static void ph_compact(void *u) {
    uint64_t idx = 0;
    for (size_t i = 0; i < g_dom.n; i++)
        for (int kind = 0; kind < 7; kind++)
            for (int depth = 1; depth <= (mc_thorough ? 6 : 5); depth++, idx++) {
                if (!mc_mine(idx)) continue;
                if (mc_expired()) return;
                MC_RUN(OP_COMPACT, I(kind), H(g_dom.v[i]), I(depth));
            }
}
static void ph_compact_multi(void *u) {
    static const int Ns[] = {1, 2, 5, 6, 7, 8, 12, 20, 49, 121, 122};
    uint64_t idx = 0;
    for (int kind = 7; kind <= 9; kind++)
        for (int ni = 0; ni < 11; ni++)
            for (int depth = 1; depth <= (mc_thorough ? 4 : 3); depth++, idx++) {
                if (!mc_mine(idx)) continue;
                if (mc_expired()) return;
                MC_RUN(OP_COMPACT, I(kind), H((uint64_t)Ns[ni]), I(depth));
            }
}
static int g_polyanchors[160], g_npa;
// capacities below the true cell count: E_MEMORY_BOUNDS must come back with everything freed (and identically with the default allocator)
static void ph_poly_capacity(void *u) {
    static const int shapes[] = {1, 6, 8, 3}, ress[] = {1, 3, 5, 7, 9};
    uint64_t idx = 0;
    for (int ai = 0; ai < g_npa; ai += 2)
        for (int si = 0; si < 4; si++)
            for (int sc = 1; sc <= 2; sc++)
                for (int ri = 0; ri < 5; ri++)
                    for (int fl = 0; fl <= 3; fl++)
                        for (int cm = 1; cm <= 4; cm++, idx++) {
                            if (!mc_mine(idx)) continue;
                            if (mc_expired()) return;
                            MC_RUN(OP_POLY, I(1), I(shapes[si]), I(g_polyanchors[ai]), I(sc + 16 * cm), I(ress[ri]), I(fl));
                        }
}
// resolutions outside 0..15 (and flag values outside the documented ones) on well-formed polygons with and without holes
static void ph_poly_badres(void *u) {
    static const int shapes[] = {1, 6, 8, 3, 0}, ress[] = {-1, 16, 17, -2147483647 - 1, 2147483647, 255, 256};
    static const uint32_t flagsE[] = {0, 1, 2, 3, 4, 0x10, 0x100, 0x80000002u};
    uint64_t idx = 0;
    for (int ai = 0; ai < g_npa; ai += 3)
        for (int si = 0; si < 5; si++)
            for (int ri = 0; ri < 7; ri++)
                for (int fn = 0; fn < 3; fn++)
                    for (int fi = 0; fi < 8; fi++, idx++) {
                        if (!mc_mine(idx)) continue;
                        if (mc_expired()) return;
                        MC_RUN(OP_POLY, I(fn), I(shapes[si]), I(g_polyanchors[ai]), I(1), I(ress[ri]), I(flagsE[fi]));
                    }
}
static void ph_poly_degenerate(void *u) {
    static const uint32_t flagsE[] = {0, 1, 2, 3, 4, 0x10};
    uint64_t idx = 0;
    for (int shape = 100; shape <= 110; shape++)
        for (int ai = 0; ai < g_npa; ai += 4)
            for (int res = 0; res <= 15; res += 3)
                for (int fn = 0; fn < 3; fn++)
                    for (int fi = 0; fi < (fn == 0 ? 1 : 6); fi++, idx++) {
                        if (!mc_mine(idx)) continue;
                        if (mc_expired()) return;
                        MC_RUN(OP_POLY, I(fn), I(shape), I(g_polyanchors[ai]), I(1), I(res), I(fn == 0 ? 0 : flagsE[fi]));
                    }
}
static void ph_poly(void *u) {
    static const int shapes[] = {1, 4, 6, 8, 9, 0, 2, 3, 5, 7, 10}, ress[] = {1, 3, 5, 7, 0, 2, 4, 9, 6, 8, 11, 13, 15};
    static const uint32_t flagsE[] = {0, 1, 2, 3, 4, 0x10};
    uint64_t idx = 0;
    for (int ai = 0; ai < g_npa; ai++)
        for (int si = 0; si < 11; si++)
            for (int sc = 0; sc <= 2; sc++)
                for (int ri = 0; ri < 13; ri++)
                    for (int fn = 0; fn < 3; fn++)
                        for (int fi = 0; fi < (fn == 0 ? 1 : 6); fi++, idx++) {
                            if (!mc_mine(idx)) continue;
                            if (mc_expired()) return;
                            MC_RUN(OP_POLY, I(fn), I(shapes[si]), I(g_polyanchors[ai]), I(sc), I(ress[ri]), I(fn == 0 ? 0 : flagsE[fi]));
                        }
}
int main(int argc, char **argv) {
    mc_init(argc, argv);
    mc_level = "fault_enumeration";
    poly_build_anchors();
    for (int an = 0; an < poly_nanchor && g_npa < 160; an++) {
        int k = poly_anchor_kind[an];
        if (k == 1 || (k == 0 && an % (mc_thorough ? 2 : 3) == 0) || (k == 5 && an % 3 == 0) || (k == 2 && an % (mc_thorough ? 8 : 15) == 0) || ((k == 3 || k == 4 || k == 6) && an % (mc_thorough ? 1 : 2) == 0)) g_polyanchors[g_npa++] = an;
    }
    snprintf(mc_bounds, sizeof mc_bounds, "fault bound: every single index, every persistent-from index, every pair (n<=14); disks: CLOSE(pentagons,2)+hexagons at %s x k 1..%d x distances NULL/non-NULL; "
             "areNeighborCells: CLOSE(pentagons,1) at %d resolutions x ball 2; compactCells: 7 kinds x depth 1..%d on 36 roots (12 base cells x res 0,5,10) + full/partial descendant sets of N in {1,2,5,6,7,8,12,20,49,121,122} base cells (3 selections) at res 1..3(4); polygons: %d shapes x %d anchors x %d scales x %d resolutions x (legacy, experimental x 6 flag values, size x 6) + 11 degenerate polygons (empty / 1- / 2-vertex outer loop, empty holes, holes with NaN / infinite vertexes, a hole 40x larger than or far outside the outer loop) x anchors x 6 resolutions; capacities {count-1, count/2, 1, 0} x 4 modes; resolutions {-1,16,17,INT_MIN,INT_MAX,255,256} x 5 shapes x 8 flag values x 3 functions; "
             "disks from invalid origins (digit 7 at every position, deleted sub-sequence, base cells 122/127, high bit, wrong mode, reserved bits) x k 0..3",
             "all 16 resolutions", mc_thorough ? 9 : 7, 16, mc_thorough ? 6 : 5, 11, g_npa, 3, 13);
    static const int dres[] = {0, 1, 2, 5, 9, 13, 3, 7, 11, 15, 4, 6, 8, 10, 12, 14};
    for (int ri = 0; ri < 16; ri++) {
        U64Vec p = {0};
        dom_pent(dres[ri], 0, &p);
        dom_close1(&p);
        dom_close1(&p);
        for (size_t i = 0; i < p.n; i++) uv_push(&g_dom, p.v[i]);
        int d[15] = {3, 3, 3, 3, 3, 3, 3, 3, 3, 3, 3, 3, 3, 3, 3};
        uv_push(&g_dom, spec_mk(dres[ri], 20, d));
        uv_free(&p);
    }
    mc_phase("gridDisk / gridDiskDistances", ph_disk, NULL);
    mc_phase("gridDisk / gridDiskDistances from invalid origins", ph_disk_invalid, NULL);
    g_dom.n = 0;
    for (int ri = 0; ri < 16; ri++) {
        U64Vec p = {0};
        dom_pent(dres[ri], 0, &p);
        dom_close1(&p);
        for (size_t i = 0; i < p.n; i++) uv_push(&g_dom, p.v[i]);
        uv_free(&p);
    }
    mc_phase("areNeighborCells", ph_nbr, NULL);
    g_dom.n = 0;
    {
        int d[15] = {0};
        static const int bcs[] = {0, 4, 20, 58, 121, 14, 38, 63, 97, 117, 8, 77};
        for (int i = 0; i < 12; i++)
            for (int r = 0; r <= 10; r += 5) {
                uv_push(&g_dom, spec_mk(r, bcs[i], d));
            }
    }
    mc_phase("compactCells", ph_compact, NULL);
    mc_phase("compactCells over many base cells", ph_compact_multi, NULL);
    mc_phase("polygon fills", ph_poly, NULL);
    mc_phase("degenerate polygons", ph_poly_degenerate, NULL);
    mc_phase("polygons with a resolution outside 0..15", ph_poly_badres, NULL);
    mc_phase("polygonToCellsExperimental with too small a capacity", ph_poly_capacity, NULL);
    return mc_finish();
}
