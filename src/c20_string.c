// BUILD: variant=san
// C20 -- string form of an index round-trips exactly.
#include <errno.h>
#include "mc.h"
#include "dom.h"
#include <ctype.h>

const char *MC_PROPERTY = "C20";
const char *MC_RULE =
    "fmt cases: value x buffer size 0..32 (guard bytes 0xA5 before/after, buffer prefilled with 0x5A) over all values "
    "with <=3 bits set, 2^k and 2^k-1, every 16-bit pattern at the four 16-bit offsets, every cell of FULL(0..2) and "
    "every directed-edge and vertex index of those cells (thorough: <=4 bits, 20-bit patterns at 5 offsets); parse "
    "cases: every byte string of length <=5 (thorough <=7) over the 16-byte alphabet {0,1,9,a,f,A,F,g,x,X,space,+,-,NUL,"
    "newline,0x80}, plain and followed by 'zz', plus overflow forms. Non-trivial: fmt cases at the size boundary "
    "(16,17) or values whose hex form has 16 digits; parse cases whose classification is VALUE or ERROR (decided).";
const char *MC_ASSUME[] = {"parse reference: optional whitespace, optional sign, optional 0x, then >=1 hex digit = 'starts with a "
                           "hexadecimal number'; '0x' followed by a non-hex byte, a '-' sign and >16 digits are unspecified by "
                           "the property and only checked for memory safety",
                           NULL};
const char *MC_CTR_NAMES[] = {"fmt_success", "fmt_bounds", "parse_value", "parse_error", "parse_unspecified", NULL};
const char *MC_MAX_NAMES[] = {NULL};

static int ref_hex(uint64_t h, char *out) {  // lowercase unpadded hex, returns length
    char tmp[17];
    int n = 0;
    if (!h) tmp[n++] = '0';
    while (h) {
        tmp[n++] = "0123456789abcdef"[h & 15];
        h >>= 4;
    }
    for (int i = 0; i < n; i++) out[i] = tmp[n - 1 - i];
    out[n] = 0;
    return n;
}
static void op_fmt(const McArg *a) {
    uint64_t h = a[0].u;
    size_t sz = (size_t)a[1].i;
    enum { G = 24, N = 40 };
    unsigned char raw[G + N + G];
    memset(raw, 0xA5, sizeof raw);
    memset(raw + G, 0x5A, N);
    // the buffer handed to the library is exactly sz bytes as far as the contract goes
    char *buf = (char *)raw + G;
    mc_trans(1);
    H3Error e = h3ToString(h, buf, sz);
    char want[20];
    int len = ref_hex(h, want);
    if (sz == 16 || sz == 17 || len == 16) mc_nontrivial();
    for (int i = 0; i < G; i++)
        if (raw[i] != 0xA5 || raw[G + N + i] != 0xA5) {
            mc_fail("h3ToString(%" PRIx64 ", sz=%zu) wrote outside the buffer (guard byte %d)", h, sz, i);
            return;
        }
    if (sz < 17) {
        mc_ctr(1, 1);
        MC_CHECK(e == E_MEMORY_BOUNDS, "h3ToString(%" PRIx64 ", sz=%zu) returned %d, expected E_MEMORY_BOUNDS", h, sz, e);
        for (int i = 0; i < N; i++)
            MC_CHECK(raw[G + i] == 0x5A, "h3ToString(%" PRIx64 ", sz=%zu) failed but modified buffer byte %d", h, sz, i);
        return;
    }
    mc_ctr(0, 1);
    MC_CHECK(e == E_SUCCESS, "h3ToString(%" PRIx64 ", sz=%zu) returned %d, expected success", h, sz, e);
    MC_CHECK(memcmp(buf, want, len + 1) == 0, "h3ToString(%" PRIx64 ") wrote \"%.20s\", expected \"%s\"", h, buf, want);
    for (int i = len + 1; i < N; i++)
        MC_CHECK(raw[G + i] == 0x5A, "h3ToString(%" PRIx64 ", sz=%zu) touched byte %d beyond the terminator", h, sz, i);
    uint64_t back = 0xdeadbeef;
    mc_trans(1);
    // the caller's errno and earlier (failed, overflowing) parses are arbitrary history the result must not depend on
    {
        uint64_t junk;
        if ((h & 3) == 1) stringToH3("fffffffffffffffff", &junk);
        if ((h & 3) == 2) stringToH3("zz", &junk);
        errno = (h & 4) ? ERANGE : EINVAL;
    }
    e = stringToH3(buf, &back);
    MC_CHECK(e == E_SUCCESS && back == h, "stringToH3(\"%s\") = %d, %" PRIx64 "; expected %" PRIx64, buf, e, back, h);
}

static const unsigned char ALPHA[16] = {'0', '1', '9', 'a', 'f', 'A', 'F', 'g', 'x', 'X', ' ', '+', '-', 0, '\n', 0x80};
enum { CL_VALUE, CL_ERROR, CL_SUCCESS_ONLY, CL_UNSPEC };
static int hexval(int c) {
    if (c >= '0' && c <= '9') return c - '0';
    if (c >= 'a' && c <= 'f') return c - 'a' + 10;
    if (c >= 'A' && c <= 'F') return c - 'A' + 10;
    return -1;
}
static int classify(const unsigned char *s, uint64_t *v) {
    int neg = 0;
    while (*s && isspace(*s)) s++;
    if (*s == '+' || *s == '-') {
        neg = *s == '-';
        s++;
    }
    if (s[0] == '0' && (s[1] == 'x' || s[1] == 'X')) {
        if (hexval(s[2]) < 0) return CL_UNSPEC;
        s += 2;
    }
    int n = 0;
    uint64_t x = 0;
    while (hexval(*s) >= 0) {
        if (n < 16) x = x << 4 | (uint64_t)hexval(*s);
        n++;
        s++;
    }
    if (n == 0) return CL_ERROR;
    // leading zeros do not overflow: recount significant digits
    if (n > 16) return CL_UNSPEC;
    *v = x;
    return neg ? CL_SUCCESS_ONLY : CL_VALUE;
}
static void run_parse(const unsigned char *s) {
    uint64_t want = 0, out = 0x1122334455667788ull;
    int cl = classify(s, &want);
    mc_trans(1);
    errno = ERANGE;  // arbitrary caller state
    H3Error e = stringToH3((const char *)s, &out);
    if (cl == CL_VALUE) {
        mc_nontrivial();
        mc_ctr(2, 1);
        MC_CHECK(e == E_SUCCESS && out == want, "stringToH3 returned %d, %" PRIx64 "; expected success, %" PRIx64, e, out,
                 want);
    } else if (cl == CL_ERROR) {
        mc_nontrivial();
        mc_ctr(3, 1);
        MC_CHECK(e != E_SUCCESS, "stringToH3 of text not starting with a hex number returned success (%" PRIx64 ")", out);
        MC_CHECK(e <= 15, "stringToH3 returned undocumented code %d", e);
        MC_CHECK(out == 0x1122334455667788ull, "stringToH3 failed (%d) but wrote a result %" PRIx64, e, out);
    } else {
        mc_ctr(4, 1);
        if (cl == CL_SUCCESS_ONLY) MC_CHECK(e == E_SUCCESS, "stringToH3 of signed hex number returned %d", e);
        if (e != E_SUCCESS) MC_CHECK(out == 0x1122334455667788ull, "stringToH3 failed (%d) but wrote a result", e);
    }
}
// args: packed alphabet indices (4 bits each), length, suffix flag
static void op_parse(const McArg *a) {
    uint64_t w = a[0].u;
    int len = (int)a[1].i, suf = (int)a[2].i;
    unsigned char *s = malloc(len + 3);  // exact-size heap block so ASan sees over-reads
    for (int i = 0; i < len; i++) s[i] = ALPHA[(w >> (4 * i)) & 15];
    int n = len;
    if (suf) s[n++] = 'z', s[n++] = 'z';
    s[n] = 0;
    run_parse(s);
    free(s);
}
// args: digit char, count, prefix kind
static void op_long(const McArg *a) {
    int ch = (int)a[0].i, cnt = (int)a[1].i, pre = (int)a[2].i;
    unsigned char *s = malloc(cnt + 8);
    int n = 0;
    if (pre == 1) s[n++] = '0', s[n++] = 'x';
    if (pre == 2) s[n++] = ' ', s[n++] = '+';
    if (pre == 3) s[n++] = '0', s[n++] = '0', s[n++] = '0';
    for (int i = 0; i < cnt; i++) s[n++] = (unsigned char)ch;
    s[n] = 0;
    run_parse(s);
    free(s);
}
enum { OP_FMT, OP_PARSE, OP_LONG };
const McOp MC_OPS[] = {{"fmt", "hi", op_fmt}, {"parse", "hii", op_parse}, {"long", "iii", op_long}};
const int MC_NOPS = 3;

static U64Vec g_vals;
static int g_minsz = 0, g_maxsz = 32;
static void ph_fmt(void *u) {
    for (size_t i = 0; i < g_vals.n; i++) {
        if (!mc_mine(i)) continue;
        if (mc_tick(1023)) return;
        mc_states(1);
        for (int sz = g_minsz; sz <= g_maxsz; sz++) MC_RUN(OP_FMT, H(g_vals.v[i]), I(sz));
    }
}
static void ph_pat(void *u) {
    int bits = *(int *)u;
    int noff = bits == 16 ? 4 : 5;
    static const int sizes[] = {0, 16, 17, 32};
    for (int o = 0; o < noff; o++) {
        int off = bits == 16 ? 16 * o : 11 * o;
        for (uint64_t p = 0; p < (1ull << bits); p++) {
            if (!mc_mine(p)) continue;
            if (mc_tick(4095)) return;
            mc_states(1);
            for (int k = 0; k < 4; k++) MC_RUN(OP_FMT, H(p << off), I(sizes[k]));
        }
    }
}
static void ph_parse(void *u) {
    int maxlen = *(int *)u;
    uint64_t idx = 0;
    for (int len = 0; len <= maxlen; len++)
        for (uint64_t w = 0; w < (1ull << (4 * len)); w++, idx++) {
            if (!mc_mine(idx)) continue;
            if (mc_tick(4095)) return;
            mc_states(1);
            MC_RUN(OP_PARSE, H(w), I(len), I(0));
            MC_RUN(OP_PARSE, H(w), I(len), I(1));
        }
    if (mc_wid == 0) {
        static const int chs[] = {'0', '1', 'f', 'F', '9', 'a'};
        for (int c = 0; c < 6; c++)
            for (int cnt = 1; cnt <= 40; cnt++)
                for (int pre = 0; pre < 4; pre++) MC_RUN(OP_LONG, I(chs[c]), I(cnt), I(pre));
    }
}
static void add_api_indexes(void) {
    U64Vec cells = {0};
    for (int r = 0; r <= 2; r++) dom_full(r, &cells);
    for (size_t i = 0; i < cells.n; i++) {
        uv_push(&g_vals, cells.v[i]);
        uint64_t e[6], v[6];
        if (originToDirectedEdges(cells.v[i], e) == 0)
            for (int k = 0; k < 6; k++)
                if (e[k]) uv_push(&g_vals, e[k]);
        if (cellToVertexes(cells.v[i], v) == 0)
            for (int k = 0; k < 6; k++)
                if (v[k]) uv_push(&g_vals, v[k]);
    }
    uv_free(&cells);
}
int main(int argc, char **argv) {
    mc_init(argc, argv);
    int maxbits = mc_thorough ? 4 : 3;
    uv_push(&g_vals, 0);
    for (int a = 0; a < 64; a++) {
        uv_push(&g_vals, 1ull << a);
        uv_push(&g_vals, (1ull << a) - 1);
        uv_push(&g_vals, ~((1ull << a) - 1));
        for (int b = a + 1; b < 64; b++) {
            uv_push(&g_vals, 1ull << a | 1ull << b);
            for (int c = b + 1; c < 64; c++) {
                uv_push(&g_vals, 1ull << a | 1ull << b | 1ull << c);
                if (maxbits >= 4)
                    for (int d = c + 1; d < 64; d++) uv_push(&g_vals, 1ull << a | 1ull << b | 1ull << c | 1ull << d);
            }
        }
    }
    uv_push(&g_vals, ~0ull);
    add_api_indexes();
    uv_sortuniq(&g_vals);
    int patbits = mc_thorough ? 20 : 16, maxlen = mc_thorough ? 7 : 5;
    snprintf(mc_bounds, sizeof mc_bounds,
             "%zu structured values x sizes 0..32; %d-bit patterns x %d offsets x sizes {0,16,17,32}; strings of length <=%d "
             "over 16 bytes, plain and +'zz'; digit runs of length 1..40 x 4 prefixes",
             g_vals.n, patbits, patbits == 16 ? 4 : 5, maxlen);
    mc_phase("fmt structured values x sizes", ph_fmt, NULL);
    mc_phase("fmt bit patterns", ph_pat, &patbits);
    mc_phase("parse strings", ph_parse, &maxlen);
    return mc_finish();
}
