// poly.h -- polygon catalogue (shapes x anchors x scales x resolutions), planar lat/lng oracle pieces and
// candidate-cell enumeration shared by C07, C15, C17. Needs mc.h, dom.h.
#ifndef POLY_H
#define POLY_H
typedef struct {
    int n;
    LatLng v[16];
} Loop;
typedef struct {
    Loop outer;
    int nh;
    Loop holes[3];
    GeoLoop hl[3];
    GeoPolygon gp;
    double u;  // cell edge length (radians) at the polygon's resolution
    int res;
} Poly;

// average hexagon edge length in radians by resolution: res-0 value / sqrt(7)^r. The res-0 value is measured from
// geometry at start-up (mean boundary segment of base cell 0's neighbours), not taken from the library's tables.
static double poly_edge0 = 0;
static double poly_edge(int res) {
    if (poly_edge0 == 0) {
        double s = 0;
        int n = 0, d[15] = {0};
        for (int bc = 0; bc < 122; bc += 7) {
            CellBoundary cb;
            if (cellToBoundary(spec_mk(0, bc, d), &cb)) continue;
            for (int i = 0; i < cb.numVerts; i++) s += adist(cb.verts[i], cb.verts[(i + 1) % cb.numVerts]), n++;
        }
        poly_edge0 = s / n;
    }
    return poly_edge0 / pow(sqrt(7.0), res);
}

// ---- anchors
static LatLng *poly_anchor;
static int poly_nanchor, poly_anchor_kind[600];  // kind: 0 base-cell centre, 1 pentagon centre, 2 res-0 corner, 3 edge midpoint, 4 face centre, 5 antimeridian, 6 near pole
static void poly_build_anchors(void) {
    if (poly_anchor) return;
    poly_anchor = malloc(600 * sizeof(LatLng));
    int d[15] = {0}, n = 0;
    for (int bc = 0; bc < 122; bc++) {
        poly_anchor_kind[n] = spec_is_pent_bc(bc) ? 1 : 0;
        cellToLatLng(spec_mk(0, bc, d), &poly_anchor[n++]);
    }
    int c0 = n;
    for (int bc = 0; bc < 122; bc++) {
        CellBoundary cb;
        if (cellToBoundary(spec_mk(0, bc, d), &cb)) continue;
        for (int i = 0; i < cb.numVerts; i++) {
            int dup = 0;
            for (int k = c0; k < n; k++)
                if (adist(poly_anchor[k], cb.verts[i]) < 1e-6) dup = 1;
            if (!dup && n < 400) poly_anchor_kind[n] = 2, poly_anchor[n++] = cb.verts[i];
        }
    }
    Icosa ic;
    if (dom_icosa(&ic) == 0) {
        for (int e = 0; e < 30; e++) {
            DV3 a = ic.vert[ic.edge[e][0]], b = ic.vert[ic.edge[e][1]];
            poly_anchor_kind[n] = 3;
            poly_anchor[n++] = dll((DV3){a.x + b.x, a.y + b.y, a.z + b.z});
        }
        for (int f = 0; f < 20; f++) poly_anchor_kind[n] = 4, poly_anchor[n++] = dll(ic.facec[f]);
    }
    static const double lats[5] = {-1.1, -0.55, 0.013, 0.61, 1.17};
    for (int i = 0; i < 5; i++) {
        poly_anchor_kind[n] = 5, poly_anchor[n++] = (LatLng){lats[i], M_PI - 1e-3};
        poly_anchor_kind[n] = 5, poly_anchor[n++] = (LatLng){lats[i], -M_PI + 0.7e-3};
    }
    poly_anchor_kind[n] = 6, poly_anchor[n++] = (LatLng){M_PI / 2 - 0.1, 0.5};
    poly_anchor_kind[n] = 6, poly_anchor[n++] = (LatLng){-M_PI / 2 + 0.1, -2.0};
    poly_nanchor = n;
}

// ---- shapes: templates in units of the cell edge (x = east, y = north), irrational-ish offsets
#define POLY_NSHAPES 14
static const double PT[][8][2] = {
    {{-1.31, -1.07}, {1.43, -0.93}, {0.11, 1.77}},                                                      // 0 triangle
    {{-2.13, -2.21}, {2.37, -2.09}, {2.19, 2.33}, {-2.41, 2.07}},                                       // 1 quadrilateral
    {{-3.1, -3.2}, {3.3, -3.05}, {3.15, -0.4}, {0.35, -0.55}, {0.25, 3.1}, {-3.2, 3.25}},               // 2 concave L
    {{-7.3, -6.9}, {7.1, -7.2}, {8.2, 0.3}, {6.9, 7.4}, {-0.2, 5.1}, {-7.4, 7.2}, {-5.1, 0.1}},         // 3 concave 7-gon
    {{-6.1, -0.13}, {6.3, -0.21}, {6.2, 0.17}, {-6.25, 0.22}},                                          // 4 needle 30:1
    {{-0.21, -0.17}, {0.23, -0.19}, {0.03, 0.27}},                                                      // 5 sub-cell triangle
    {{-3.1, -3.2}, {3.3, -3.05}, {3.15, 3.1}, {0.27, 3.2}, {0.21, -1.55}, {-0.19, -1.63}, {-0.24, 3.15}, {-3.2, 3.25}},  // 6 square with a deep narrow slit
};
static const int PTN[] = {3, 4, 6, 7, 4, 3, 8};
// holes are clockwise, in the same units, given with a scale factor relative to the outer shape
static const double PH[][4][2] = {
    {{-0.9, -0.8}, {-1.0, 0.9}, {0.8, 1.0}, {0.9, -0.7}},     // central hole
    {{-1.9, -1.8}, {-1.95, -1.1}, {-1.2, -1.05}, {-1.1, -1.85}},  // second hole, lower left
    {{-0.11, -0.09}, {-0.12, 0.1}, {0.1, 0.12}, {0.09, -0.1}},  // hole smaller than a cell
    {{-0.95, -0.85}, {0.85, 0.95}, {0.95, 0.85}, {-0.85, -0.95}},  // 3 thin diagonal sliver: its bounding box is the whole square
    {{0.4, -0.7}, {0.4, -0.4}, {0.7, -0.4}, {0.7, -0.7}},          // 4 small square inside the sliver's bounding box but outside the sliver
};
// shape id -> (outer template, holes[], hole scale)
static const struct {
    int outer, nh, hole[2];
    double hs;
} PSHAPE[POLY_NSHAPES] = {
    {0, 0, {0, 0}, 1}, {1, 0, {0, 0}, 1}, {2, 0, {0, 0}, 1}, {3, 0, {0, 0}, 1}, {4, 0, {0, 0}, 1}, {5, 0, {0, 0}, 1},
    {1, 1, {0, 0}, 1.0},  // 6 quad + central hole
    {3, 1, {0, 0}, 3.0},  // 7 7-gon + island-sized hole
    {3, 2, {0, 1}, 2.0},  // 8 7-gon + two holes
    {1, 1, {2, 0}, 1.0},  // 9 quad + hole smaller than a cell
    {3, 1, {2, 0}, 1.0},  // 10 7-gon + hole smaller than a cell
    {1, 2, {3, 4}, 2.0},  // 11 quad + diagonal sliver hole + small hole inside the sliver's bounding box (hole order: sliver first)
    {1, 2, {4, 3}, 2.0},  // 12 the same two holes in the other order
    {6, 0, {0, 0}, 1},    // 13 square with a deep narrow slit (a notch much narrower than the polygon)
};
static const double PSCALE[4] = {0.37, 1.0, 2.7, 9.0};
// cell-derived shapes (C15): shape POLY_NSHAPES+k = a small quadrilateral sitting on corner k (0..5) of the cell that contains the anchor at
// the polygon's resolution, centred at 97 % of the way from the cell centre to that corner, half-size TIPSZ[scale] cell edges: it overlaps
// the cell only in the tip that a too-small bounding-box pre-filter would cut off, and straddles the two other cells at that corner
#define POLY_NSHAPES_EXT (POLY_NSHAPES + 6)
static const double TIPSZ[4] = {0.02, 0.06, 0.15, 0.45};

static double poly_wrap(double l) {
    while (l > M_PI) l -= 2 * M_PI;
    while (l < -M_PI) l += 2 * M_PI;
    return l;
}
// build polygon; returns 0 ok, -1 if filtered out (too close to a pole / too wide / too many expected cells)
static int poly_build(int shape, int anchor, int scale, int res, Poly *p) {
    poly_build_anchors();
    if (anchor < 0 || anchor >= poly_nanchor || shape < 0 || shape >= POLY_NSHAPES_EXT || scale < 0 || scale > 3) return -1;
    double u = poly_edge(res), sc = PSCALE[scale] * u;
    LatLng c = poly_anchor[anchor];
    if (shape >= POLY_NSHAPES) {
        uint64_t h = 0;
        CellBoundary cb;
        LatLng cc;
        int k = shape - POLY_NSHAPES;
        if (latLngToCell(&c, res, &h) || cellToBoundary(h, &cb) || cellToLatLng(h, &cc) || k >= cb.numVerts) return -1;
        if (fabs(cc.lat) + 3 * u > M_PI / 2 - 0.02 || 3 * u / cos(cc.lat) > 1.2) return -1;
        double dl = poly_wrap(cb.verts[k].lng - cc.lng), half = TIPSZ[scale] * u, cl = cos(cc.lat);
        LatLng q = {cc.lat + 0.97 * (cb.verts[k].lat - cc.lat), cc.lng + 0.97 * dl};
        static const double QX[4] = {-0.97, 1.01, 1.0, -1.04}, QY[4] = {-1.03, -0.99, 1.02, 0.98};
        p->res = res;
        p->u = u;
        p->outer.n = 4;
        for (int i = 0; i < 4; i++) {
            p->outer.v[i].lat = q.lat + QY[i] * half;
            p->outer.v[i].lng = poly_wrap(q.lng + QX[i] * half / cl);
        }
        p->nh = 0;
        p->gp.geoloop.numVerts = 4;
        p->gp.geoloop.verts = p->outer.v;
        p->gp.numHoles = 0;
        p->gp.holes = NULL;
        return 0;
    }
    if (poly_anchor_kind[anchor] == 5)  // keep the shape straddling the antimeridian at every resolution
        c.lng = c.lng > 0 ? M_PI - 0.8 * sc / cos(c.lat) : -M_PI + 0.6 * sc / cos(c.lat);
    if (fabs(c.lat) + 9 * sc > M_PI / 2 - 0.02) return -1;
    if (9 * sc / cos(c.lat) > 1.2) return -1;
    int t = PSHAPE[shape].outer;
    p->res = res;
    p->u = u;
    p->outer.n = PTN[t];
    double minx = 1e9, maxx = -1e9, miny = 1e9, maxy = -1e9;
    for (int i = 0; i < PTN[t]; i++) {
        p->outer.v[i].lat = c.lat + PT[t][i][1] * sc;
        p->outer.v[i].lng = poly_wrap(c.lng + PT[t][i][0] * sc / cos(c.lat));
        minx = fmin(minx, PT[t][i][0]), maxx = fmax(maxx, PT[t][i][0]), miny = fmin(miny, PT[t][i][1]), maxy = fmax(maxy, PT[t][i][1]);
    }
    // expected number of cells in the bounding box (cell area = 2.598 u^2)
    double cells = (maxx - minx) * (maxy - miny) * PSCALE[scale] * PSCALE[scale] / 2.598;
    if (cells > 6000) return -1;
    p->nh = PSHAPE[shape].nh;
    for (int k = 0; k < p->nh; k++) {
        int hi = PSHAPE[shape].hole[k];
        double hs = hi == 2 ? u : PSHAPE[shape].hs * sc;  // the sub-cell hole is sized relative to the cell, not the polygon
        p->holes[k].n = 4;
        for (int i = 0; i < 4; i++) {
            p->holes[k].v[i].lat = c.lat + PH[hi][i][1] * hs;
            p->holes[k].v[i].lng = poly_wrap(c.lng + PH[hi][i][0] * hs / cos(c.lat));
        }
        if (hi == 2 && PSCALE[scale] < 0.9) return -1;
        p->hl[k].numVerts = 4;
        p->hl[k].verts = p->holes[k].v;
    }
    p->gp.geoloop.numVerts = p->outer.n;
    p->gp.geoloop.verts = p->outer.v;
    p->gp.numHoles = p->nh;
    p->gp.holes = p->nh ? p->hl : NULL;
    return 0;
}

// ---- planar lat/lng oracle
static int loop_transmeridian(const Loop *l) {
    for (int i = 0; i < l->n; i++)
        if (fabs(l->v[i].lng - l->v[(i + 1) % l->n].lng) > M_PI) return 1;
    return 0;
}
static double nlng(double lng, int tm) { return tm && lng < 0 ? lng + 2 * M_PI : lng; }
// 1 inside, 0 outside, -1 within eps of the outline
static int loop_pip(const Loop *l, int tm, LatLng p, double eps) {
    double px = nlng(p.lng, tm), py = p.lat;
    int c = 0;
    for (int i = 0; i < l->n; i++) {
        double ax = nlng(l->v[i].lng, tm), ay = l->v[i].lat, bx = nlng(l->v[(i + 1) % l->n].lng, tm), by = l->v[(i + 1) % l->n].lat;
        double vx = bx - ax, vy = by - ay, wx = px - ax, wy = py - ay, vv = vx * vx + vy * vy, t = vv > 0 ? (wx * vx + wy * vy) / vv : 0;
        if (t < 0) t = 0;
        if (t > 1) t = 1;
        if (hypot(wx - t * vx, wy - t * vy) < eps) return -1;
        if ((ay > py) != (by > py)) {
            double xi = ax + (py - ay) / (by - ay) * (bx - ax);
            if (xi > px) c = !c;
        }
    }
    return c;
}
// centre-containment verdict for a point: 1 inside polygon (outer minus holes), 0 outside, -1 undecided
static int poly_contains(const Poly *p, LatLng c, double eps) {
    int tm = loop_transmeridian(&p->outer);
    int in = loop_pip(&p->outer, tm, c, eps);
    if (in < 0) return -1;
    if (!in) return 0;
    for (int k = 0; k < p->nh; k++) {
        int ih = loop_pip(&p->holes[k], loop_transmeridian(&p->holes[k]) || tm, c, eps);
        if (ih < 0) return -1;
        if (ih) return 0;
    }
    return 1;
}

// ---- candidate cells: flood over the geometric graph from the cells containing the polygon's vertices and edge
// sample points, continuing while the cell centre lies within the polygon's bounding box grown by `margin` radians
// (in the lat/lng plane, longitudes unwrapped about the first vertex). Adds 122 far-away sentinels.
static double unwrap_about(double lng, double ref) {
    while (lng - ref > M_PI) lng -= 2 * M_PI;
    while (lng - ref < -M_PI) lng += 2 * M_PI;
    return lng;
}
static int poly_candidates(const Poly *p, OGraph *G, double margin, U64Vec *out) {
    int res = p->res;
    double ref = p->outer.v[0].lng, minx = 1e9, maxx = -1e9, miny = 1e9, maxy = -1e9;
    for (int i = 0; i < p->outer.n; i++) {
        double x = unwrap_about(p->outer.v[i].lng, ref), y = p->outer.v[i].lat;
        minx = fmin(minx, x), maxx = fmax(maxx, x), miny = fmin(miny, y), maxy = fmax(maxy, y);
    }
    double mx = margin / fmax(0.05, cos(fmax(fabs(miny), fabs(maxy)) + margin));
    minx -= mx, maxx += mx, miny -= margin, maxy += margin;
    out->n = 0;
    if (res <= 2) {
        dom_full(res, out);
        return 0;
    }
    U64Vec q = {0};
    G->epoch++;
    int32_t ep = G->epoch;
    // seeds: polygon vertices and 8 points along every edge (outer and holes)
    for (int k = -1; k < p->nh; k++) {
        const Loop *l = k < 0 ? &p->outer : &p->holes[k];
        for (int i = 0; i < l->n; i++) {
            LatLng a = l->v[i], b = l->v[(i + 1) % l->n];
            double bl = unwrap_about(b.lng, a.lng);
            for (int s = 0; s < 8; s++) {
                LatLng m = {a.lat + (b.lat - a.lat) * s / 8.0, poly_wrap(a.lng + (bl - a.lng) * s / 8.0)};
                uint64_t h;
                if (latLngToCell(&m, res, &h)) continue;
                ONode *nd = og_get(G, h);
                if (nd->mark != ep) nd->mark = ep, uv_push(&q, h);
            }
        }
    }
    for (size_t qi = 0; qi < q.n; qi++) {
        uint64_t h = q.v[qi], nb[8];
        uv_push(out, h);
        if (q.n > 60000) {
            uv_free(&q);
            return -2;
        }
        int n = og_nbrs(G, h, nb);
        if (n < 0) {
            uv_free(&q);
            return -1;
        }
        for (int i = 0; i < n; i++) {
            ONode *nd = og_get(G, nb[i]);
            if (nd->mark == ep) continue;
            LatLng c;
            if (cellToLatLng(nb[i], &c)) continue;
            double x = unwrap_about(c.lng, ref);
            if (x < minx || x > maxx || c.lat < miny || c.lat > maxy) continue;
            nd->mark = ep;
            uv_push(&q, nb[i]);
        }
    }
    uv_free(&q);
    int d[15] = {0};
    for (int bc = 0; bc < 122; bc++) {
        uint64_t s = spec_mk(res, bc, d);
        uv_push(out, s);
    }
    uv_sortuniq(out);
    return 0;
}
#endif
