// mc.h -- explorer core for bounded exhaustive exploration of uber/h3 (header-only).
//
// A harness includes this file, defines MC_PROPERTY, the op table MC_OPS (each op is one kind of
// case: a name, an argument signature and a function that executes the case on the real library and
// judges it against the reference model), and a main() of the form
//     mc_init(argc, argv);  mc_phase("name", fn, arg); ...  return mc_finish();
// A *case* is (op, args). Every violation is keyed by its case string, confirmed by re-executing the
// case alone in a fresh process, written to replay/<ID>/<n>.json and replayable with --replay.
#ifndef MC_H
#define MC_H
#define _GNU_SOURCE
#include <dirent.h>
#include <errno.h>
#include <fcntl.h>
#include <inttypes.h>
#include <math.h>
#include <signal.h>
#include <stdarg.h>
#include <stdint.h>
#include <stdio.h>
#include <stdlib.h>
#include <string.h>
#include <sys/mman.h>
#include <sys/time.h>
#include <sys/stat.h>
#include <sys/wait.h>
#include <time.h>
#include <unistd.h>

#include "h3api.h"

typedef union {
    uint64_t u;
    int64_t i;
    double d;
} McArg;
#define MC_MAXARGS 10
typedef struct {
    int op;
    McArg a[MC_MAXARGS];
} McCase;
typedef struct {
    const char *name;
    const char *sig;  // one char per argument: h = hex u64, i = int64, d = double
    void (*fn)(const McArg *a);
} McOp;

// provided by the harness
extern const char *MC_PROPERTY;
extern const McOp MC_OPS[];
extern const int MC_NOPS;
extern const char *MC_RULE;         // how cases are enumerated / what is non-trivial
extern const char *MC_ASSUME[];     // NULL-terminated
extern const char *MC_CTR_NAMES[];  // NULL-terminated names of extra counters (max MC_NCTR)
extern const char *MC_MAX_NAMES[];  // NULL-terminated names of tracked maxima (max MC_NMAX)

#define MC_NCTR 24
#define MC_NMAX 12
#define MC_VIOL_PER_WORKER 8
#define MC_MAXW 64
#define MC_MSG 600

typedef struct {
    McCase c;
    char msg[MC_MSG];
} McViol;
typedef struct {
    McCase cur;
    volatile int in_case;
    uint64_t evals, nontrivial, transitions, states;
    uint64_t ctr[MC_NCTR];
    double maxv[MC_NMAX];
    McCase maxc[MC_NMAX];
    uint64_t nviol_total;
    int nviol_rec;
    McViol viol[MC_VIOL_PER_WORKER];
    int nsamples;
    McCase samples[3];
    int incomplete;
    int cur_failed, cur_nontrivial;
} McWorker;

static McWorker *mc_w;  // this worker's slot
static McWorker *mc_workers;
static int mc_wid = 0, mc_nw = 16;
static const char *mc_tier = "quick";
static int mc_thorough = 0;
static double mc_t0, mc_deadline_s = 240;
static long mc_seed = 0;
static int mc_replaying = 0;
static char mc_bounds[4000];
static const char *mc_level = "model_checking";  // harness may describe the bounds of this tier here
static const char *mc_part = "";   // multi-binary checks (C18): evidence goes to build/<ID>/part-<part>.json, merged by the driver
static int mc_defer_replay = 0;     // harness sets this before mc_init if replay needs set-up first; then it calls mc_do_replay itself
static const char *mc_replaying_file = NULL;
static char *mc_note;              // shared page: free text a dying worker leaves behind (e.g. the write-trap address)

static double mc_now(void) {
    struct timespec ts;
    clock_gettime(CLOCK_MONOTONIC, &ts);
    return ts.tv_sec + ts.tv_nsec * 1e-9;
}
static inline int mc_mine(uint64_t idx) { return (int)(idx % (uint64_t)mc_nw) == mc_wid; }
static int mc_expired(void) {
    if (mc_now() - mc_t0 > mc_deadline_s) {
        mc_w->incomplete = 1;
        return 1;
    }
    return 0;
}
// deadline check on every (mask+1)-th call of this process (a per-process counter: an index-based test such as (i & 63) == 0 would only
// ever fire in worker 0 when the index is also used to deal cases to 16 workers)
static inline int mc_tick(unsigned mask) {
    static unsigned n;
    return ((++n & mask) == 0) && mc_expired();
}
static void *mc_shalloc(size_t n) {
    void *p = mmap(NULL, n ? n : 1, PROT_READ | PROT_WRITE, MAP_SHARED | MAP_ANONYMOUS, -1, 0);
    if (p == MAP_FAILED) {
        perror("mmap");
        exit(2);
    }
    return p;
}

// ---- case string <-> McCase
static void mc_case_str(const McCase *c, char *buf, size_t n) {
    const McOp *o = &MC_OPS[c->op];
    size_t k = snprintf(buf, n, "%s", o->name);
    for (int i = 0; o->sig[i] && k < n; i++) {
        if (o->sig[i] == 'h')
            k += snprintf(buf + k, n - k, " h:%" PRIx64, c->a[i].u);
        else if (o->sig[i] == 'i')
            k += snprintf(buf + k, n - k, " i:%" PRId64, c->a[i].i);
        else
            k += snprintf(buf + k, n - k, " d:%a", c->a[i].d);
    }
}
static int mc_case_parse(const char *s, McCase *c) {
    char name[64];
    int off = 0;
    memset(c, 0, sizeof *c);
    if (sscanf(s, "%63s%n", name, &off) != 1) return -1;
    c->op = -1;
    for (int i = 0; i < MC_NOPS; i++)
        if (!strcmp(MC_OPS[i].name, name)) c->op = i;
    if (c->op < 0) return -1;
    const char *p = s + off;
    const char *sig = MC_OPS[c->op].sig;
    for (int i = 0; sig[i]; i++) {
        while (*p == ' ') p++;
        if (p[0] != sig[i] || p[1] != ':') return -1;
        p += 2;
        char *e;
        if (sig[i] == 'h')
            c->a[i].u = strtoull(p, &e, 16);
        else if (sig[i] == 'i')
            c->a[i].i = strtoll(p, &e, 10);
        else
            c->a[i].d = strtod(p, &e);
        if (e == p) return -1;
        p = e;
    }
    return 0;
}

// ---- known findings (read-only file; loaded once at start)
#define MC_MAXKNOWN 20000
static char **mc_known_key;
static char **mc_known_text;
static char *mc_known_hit;  // shared between workers
static int mc_nknown = 0;
static void mc_case_str(const McCase *c, char *buf, size_t n);
static void mc_load_known(void) {
    FILE *f = fopen("/verif/known_findings.txt", "r");
    if (!f) return;
    char line[4096], pat[128];
    mc_known_key = calloc(MC_MAXKNOWN, sizeof(char *));
    mc_known_text = calloc(MC_MAXKNOWN, sizeof(char *));
    snprintf(pat, sizeof pat, "finding: property=%s key=\"", MC_PROPERTY);
    while (fgets(line, sizeof line, f) && mc_nknown < MC_MAXKNOWN) {
        if (strncmp(line, pat, strlen(pat))) continue;
        char *k = line + strlen(pat), *e = strchr(k, '"');
        if (!e) continue;
        *e = 0;
        mc_known_key[mc_nknown] = strdup(k);
        e[1 + strcspn(e + 1, "\n")] = 0;
        mc_known_text[mc_nknown] = strdup(e + 1);
        mc_nknown++;
    }
    fclose(f);
    mc_known_hit = mmap(NULL, MC_MAXKNOWN, PROT_READ | PROT_WRITE, MAP_SHARED | MAP_ANONYMOUS, -1, 0);
}

// ---- called from op functions
static void mc_fail(const char *fmt, ...) __attribute__((format(printf, 1, 2)));
static void mc_fail(const char *fmt, ...) {
    McWorker *w = mc_w;
    if (w->cur_failed) return;  // one violation per case
    if (mc_nknown && !mc_replaying) {
        char key[1024];
        mc_case_str(&w->cur, key, sizeof key);
        for (int i = 0; i < mc_nknown; i++)
            if (!strcmp(key, mc_known_key[i])) {
                mc_known_hit[i] = 1;
                return;
            }
    }
    w->cur_failed = 1;
    w->nviol_total++;
    if (getenv("VERIF_DUMPALL")) {
        char key[1024], m[MC_MSG];
        va_list ap2;
        va_start(ap2, fmt);
        vsnprintf(m, sizeof m, fmt, ap2);
        va_end(ap2);
        mc_case_str(&w->cur, key, sizeof key);
        fprintf(stderr, "RAW key=\"%s\" :: %s\n", key, m);
    }
    va_list ap;
    va_start(ap, fmt);
    if (mc_replaying) {
        char m[MC_MSG];
        vsnprintf(m, sizeof m, fmt, ap);
        printf("  observed: %s\n", m);
    }
    va_end(ap);
    if (w->nviol_rec < MC_VIOL_PER_WORKER) {
        McViol *v = &w->viol[w->nviol_rec++];
        v->c = w->cur;
        va_start(ap, fmt);
        vsnprintf(v->msg, sizeof v->msg, fmt, ap);
        va_end(ap);
    }
}
// report a violation of a sub-case (op, args) found while executing a batch case: the violation is keyed,
// written and replayed as the sub-case
#define MC_FAIL_AS(opidx, nargs_, args_, ...)                          \
    do {                                                               \
        McCase save__ = mc_w->cur;                                     \
        McCase sub__;                                                  \
        memset(&sub__, 0, sizeof sub__);                               \
        sub__.op = (opidx);                                            \
        for (int i__ = 0; i__ < (nargs_); i__++) sub__.a[i__] = (args_)[i__]; \
        mc_w->cur = sub__;                                             \
        mc_fail(__VA_ARGS__);                                          \
        mc_w->cur = save__;                                            \
    } while (0)
#define MC_CHECK(cond, ...)             \
    do {                                \
        if (!(cond)) {                  \
            mc_fail(__VA_ARGS__);       \
            return;                     \
        }                               \
    } while (0)
static inline void mc_nontrivial(void) { mc_w->cur_nontrivial = 1; }
static inline void mc_trans(uint64_t n) { mc_w->transitions += n; }
static inline void mc_states(uint64_t n) { mc_w->states += n; }
static inline void mc_ctr(int i, uint64_t n) { mc_w->ctr[i] += n; }
static inline void mc_max(int i, double v) {
    if (v > mc_w->maxv[i]) {
        mc_w->maxv[i] = v;
        mc_w->maxc[i] = mc_w->cur;
    }
}

// ---- executing one case
static volatile double mc_case_t0;
static double mc_case_limit = 120;
static void mc_watchdog(int sig) {
    (void)sig;
    if (mc_w && mc_w->in_case && mc_now() - mc_case_t0 > mc_case_limit) _exit(97);
}
static void mc_watchdog_start(void) {
    struct sigaction sa;
    memset(&sa, 0, sizeof sa);
    sa.sa_handler = mc_watchdog;
    sigaction(SIGALRM, &sa, NULL);
    struct itimerval it = {{5, 0}, {5, 0}};
    setitimer(ITIMER_REAL, &it, NULL);
}
static void mc_run_case(const McCase *c) {
    McWorker *w = mc_w;
    mc_case_t0 = mc_now();
    w->cur = *c;
    w->cur_failed = 0;
    w->cur_nontrivial = 0;
    w->in_case = 1;
    w->evals++;
    MC_OPS[c->op].fn(c->a);
    w->in_case = 0;
    if (w->cur_nontrivial) {
        w->nontrivial++;
        if (w->nsamples < 3 && (w->nontrivial % 997 == 1 || w->nsamples == 0)) w->samples[w->nsamples++] = *c;
    }
}
static inline McArg H(uint64_t u) { McArg a; a.u = u; return a; }
static inline McArg I(int64_t i) { McArg a; a.i = i; return a; }
static inline McArg D(double d) { McArg a; a.d = d; return a; }
#define MC_RUN(opidx, ...)                          \
    do {                                            \
        McCase c__ = {(opidx), {__VA_ARGS__}};      \
        mc_run_case(&c__);                          \
    } while (0)

// ---- phases
typedef struct {
    char name[96];
    uint64_t evals;
    int complete;
    double wall;
} McPhase;
static McPhase mc_phases[64];
static int mc_nphases = 0;
static McViol mc_crash[32];
static int mc_ncrash = 0;

typedef void (*McPhaseFn)(void *arg);
static void mc_phase(const char *name, McPhaseFn fn, void *arg) {
    const char *only = getenv("VERIF_ONLY");  // debugging aid: run only phases whose name contains this string
    if (only && *only && !strstr(name, only)) return;
    double t = mc_now();
    McPhase *ph = &mc_phases[mc_nphases++];
    snprintf(ph->name, sizeof ph->name, "%s", name);
    ph->complete = 1;
    if (mc_now() - mc_t0 > mc_deadline_s) {
        ph->complete = 0;
        ph->evals = 0;
        ph->wall = 0;
        mc_workers[0].incomplete = 1;
        return;
    }
    uint64_t before = 0;
    for (int i = 0; i < mc_nw; i++) before += mc_workers[i].evals, mc_workers[i].incomplete = 0;
    fflush(stdout);
    fflush(stderr);
    pid_t pids[MC_MAXW];
    for (int i = 0; i < mc_nw; i++) {
        pid_t p = fork();
        if (p < 0) {
            perror("fork");
            exit(2);
        }
        if (p == 0) {
            mc_wid = i;
            mc_w = &mc_workers[i];
            mc_watchdog_start();
            fn(arg);
            fflush(stdout);
            _exit(0);
        }
        pids[i] = p;
    }
    for (int i = 0; i < mc_nw; i++) {
        int st;
        while (waitpid(pids[i], &st, 0) < 0 && errno == EINTR) {
        }
        McWorker *w = &mc_workers[i];
        if (!(WIFEXITED(st) && WEXITSTATUS(st) == 0)) {
            ph->complete = 0;
            if (mc_ncrash < 32) {
                McViol *v = &mc_crash[mc_ncrash++];
                v->c = w->cur;
                if (WIFSIGNALED(st))
                    snprintf(v->msg, sizeof v->msg, "worker died with signal %d (%s) %s", WTERMSIG(st),
                             strsignal(WTERMSIG(st)), w->in_case ? "inside this case" : "outside any case");
                else if (WEXITSTATUS(st) == 97)
                    snprintf(v->msg, sizeof v->msg, "the case did not return within %.0f s (hang / unbounded loop)", mc_case_limit);
                else if (WEXITSTATUS(st) == 96)
                    snprintf(v->msg, sizeof v->msg, "write trap: %.400s", mc_note ? mc_note : "");
                else if (WEXITSTATUS(st) == 66)
                    snprintf(v->msg, sizeof v->msg, "ThreadSanitizer reported a data race inside this case");
                else
                    snprintf(v->msg, sizeof v->msg, "worker exited with status %d %s", WEXITSTATUS(st),
                             w->in_case ? "inside this case" : "outside any case");
                if (!w->in_case) {
                    fprintf(stderr, "HARNESS ERROR: %s in phase %s\n", v->msg, name);
                    mc_ncrash--;
                    mc_workers[0].ctr[MC_NCTR - 1]++;  // harness_errors
                }
            }
        }
        if (w->incomplete) ph->complete = 0;
    }
    uint64_t after = 0;
    for (int i = 0; i < mc_nw; i++) after += mc_workers[i].evals;
    ph->evals = after - before;
    ph->wall = mc_now() - t;
    fprintf(stderr, "[%s] phase %-28s cases=%" PRIu64 " complete=%d %.1fs\n", MC_PROPERTY, name, ph->evals,
            ph->complete, ph->wall);
}

static void mc_json_str(FILE *f, const char *s) {
    fputc('"', f);
    for (; *s; s++) {
        if (*s == '"' || *s == '\\')
            fprintf(f, "\\%c", *s);
        else if ((unsigned char)*s < 0x20)
            fprintf(f, "\\u%04x", *s);
        else
            fputc(*s, f);
    }
    fputc('"', f);
}

// run one case in a fresh child; returns 1 if it reports a violation (or dies), 0 if it passes
static int mc_confirm(const McCase *c, char *msg, size_t n) {
    McWorker *slot = mc_shalloc(sizeof(McWorker));
    memset(slot, 0, sizeof *slot);
    fflush(stdout);
    pid_t p = fork();
    if (p == 0) {
        mc_w = slot;
        mc_wid = 0;
        int fd = open("/dev/null", 1);
        dup2(fd, 2);
        mc_case_limit *= 2;
        mc_watchdog_start();
        mc_run_case(c);
        _exit(0);
    }
    int st;
    while (waitpid(p, &st, 0) < 0 && errno == EINTR) {
    }
    int r = 0;
    if (!(WIFEXITED(st) && WEXITSTATUS(st) == 0)) {
        r = 1;
        if (WIFSIGNALED(st))
            snprintf(msg, n, "process died with signal %d (%s)", WTERMSIG(st), strsignal(WTERMSIG(st)));
        else if (WEXITSTATUS(st) == 97)
            snprintf(msg, n, "the case did not return within %.0f s (hang / unbounded loop)", 2 * mc_case_limit);
        else if (WEXITSTATUS(st) == 96)
            snprintf(msg, n, "write trap: %.400s", mc_note ? mc_note : "");
        else if (WEXITSTATUS(st) == 66)
            snprintf(msg, n, "ThreadSanitizer reported a data race");
        else
            snprintf(msg, n, "process exited with status %d (sanitizer report or abort)", WEXITSTATUS(st));
    } else if (slot->nviol_total) {
        r = 1;
        snprintf(msg, n, "%s", slot->viol[0].msg);
    }
    munmap(slot, sizeof *slot);
    return r;
}

static int mc_do_replay(const char *path) {
    FILE *f = fopen(path, "r");
    if (!f) {
        fprintf(stderr, "cannot open %s\n", path);
        return 2;
    }
    static char buf[1 << 16];
    size_t n = fread(buf, 1, sizeof buf - 1, f);
    buf[n] = 0;
    fclose(f);
    char *p = strstr(buf, "\"case\": \"");
    if (!p) {
        fprintf(stderr, "no case in %s\n", path);
        return 2;
    }
    p += 9;
    char *e = strchr(p, '"');
    if (e) *e = 0;
    McCase c;
    if (mc_case_parse(p, &c)) {
        fprintf(stderr, "cannot parse case: %s\n", p);
        return 2;
    }
    printf("replaying %s case: %s\n", MC_PROPERTY, p);
    mc_replaying = 1;
    mc_run_case(&c);
    if (mc_w->nviol_total) {
        printf("VIOLATION property=%s replay=%s\n", MC_PROPERTY, path);
        return 1;
    }
    printf("  case passes on this tree\n");
    return 0;
}

static void mc_init(int argc, char **argv) {
    mc_t0 = mc_now();
    const char *replay = NULL;
    const char *e = getenv("VERIF_TIER");
    if (e && *e) mc_tier = e;
    for (int i = 1; i < argc; i++) {
        if (!strcmp(argv[i], "--tier") && i + 1 < argc)
            mc_tier = argv[++i];
        else if (!strcmp(argv[i], "--replay") && i + 1 < argc)
            replay = argv[++i];
        else if (!strcmp(argv[i], "--deadline") && i + 1 < argc)
            mc_deadline_s = atof(argv[++i]);
        else if (!strcmp(argv[i], "--workers") && i + 1 < argc)
            mc_nw = atoi(argv[++i]);
    }
    mc_thorough = !strcmp(mc_tier, "thorough");
    if (!mc_thorough) mc_tier = "quick";
    int dl = 0;
    for (int i = 1; i < argc; i++)
        if (!strcmp(argv[i], "--deadline")) dl = 1;
    if (!dl) mc_deadline_s = mc_thorough ? 1500 : 200;
    if ((e = getenv("VERIF_DEADLINE")) && *e) mc_deadline_s = atof(e);
    if ((e = getenv("VERIF_WORKERS")) && *e) mc_nw = atoi(e);
    if (mc_nw < 1) mc_nw = 1;
    if (mc_nw > MC_MAXW) mc_nw = MC_MAXW;
    if ((e = getenv("VERIF_SEED")) && *e) mc_seed = atol(e);
    if ((e = getenv("VERIF_PART")) && *e) mc_part = e;
    mc_note = mc_shalloc(4096);
    mc_workers = mc_shalloc(sizeof(McWorker) * MC_MAXW);
    memset(mc_workers, 0, sizeof(McWorker) * MC_MAXW);
    mc_w = &mc_workers[0];
    mc_load_known();
    setvbuf(stdout, NULL, _IOLBF, 0);
    if (replay && mc_defer_replay) {
        mc_replaying_file = replay;
        mc_replaying = 1;
        return;
    }
    if (replay) exit(mc_do_replay(replay));
    for (int i = 0; i < 64; i++) {  // stale replay files of this tier
        char path[256];
        snprintf(path, sizeof path, "/verif/replay/%s/%s%s-%d.json", MC_PROPERTY, mc_tier, mc_part, i);
        unlink(path);
    }
}

static int mc_finish(void) {
    uint64_t evals = 0, nontriv = 0, trans = 0, states = 0, ctr[MC_NCTR] = {0}, nviol_total = 0;
    double maxv[MC_NMAX] = {0};
    McCase maxc[MC_NMAX];
    memset(maxc, 0, sizeof maxc);
    int complete = 1;
    for (int i = 0; i < mc_nphases; i++)
        if (!mc_phases[i].complete) complete = 0;
    for (int i = 0; i < MC_MAXW; i++) {
        McWorker *w = &mc_workers[i];
        evals += w->evals;
        nontriv += w->nontrivial;
        trans += w->transitions;
        states += w->states;
        nviol_total += w->nviol_total;
        for (int k = 0; k < MC_NCTR; k++) ctr[k] += w->ctr[k];
        for (int k = 0; k < MC_NMAX; k++)
            if (w->maxv[k] > maxv[k]) maxv[k] = w->maxv[k], maxc[k] = w->maxc[k];
    }
    // collect distinct recorded violations
    static McViol all[MC_MAXW * MC_VIOL_PER_WORKER + 32];
    int nall = 0;
    for (int i = 0; i < mc_ncrash; i++) all[nall++] = mc_crash[i];
    for (int i = 0; i < MC_MAXW; i++)
        for (int k = 0; k < mc_workers[i].nviol_rec; k++) all[nall++] = mc_workers[i].viol[k];
    // regression cases: replay files of defects that were repaired (fixed: lines in known_findings.txt)
    int nregress = 0;
    {
        char pat[256];
        snprintf(pat, sizeof pat, "/verif/regress/%s", MC_PROPERTY);
        DIR *d = opendir(pat);
        struct dirent *de;
        while (d && (de = readdir(d))) {
            if (!strstr(de->d_name, ".json")) continue;
            char path[600], buf[8192];
            snprintf(path, sizeof path, "%s/%s", pat, de->d_name);
            FILE *rf = fopen(path, "r");
            if (!rf) continue;
            size_t n = fread(buf, 1, sizeof buf - 1, rf);
            buf[n] = 0;
            fclose(rf);
            char *q = strstr(buf, "\"case\": \"");
            if (!q) continue;
            q += 9;
            char *e = strchr(q, '"');
            if (e) *e = 0;
            McCase c;
            if (mc_case_parse(q, &c)) continue;
            nregress++;
            evals++;
            char m[MC_MSG];
            if (mc_confirm(&c, m, sizeof m) && nall < (int)(sizeof all / sizeof *all)) {
                all[nall].c = c;
                snprintf(all[nall].msg, MC_MSG, "regression case %.100s: %.400s", de->d_name, m);
                nall++;
                nviol_total++;
            }
        }
        if (d) closedir(d);
    }
    int nreported = 0, nknown = 0, nunrepro = 0;
    char dir[256];
    snprintf(dir, sizeof dir, "replay/%s", MC_PROPERTY);
    char key[2048], msg[MC_MSG];
    for (int k = 0; k < mc_nknown; k++) {
        if (mc_known_hit[k]) {
            printf("KNOWN-FINDING: property=%s key=\"%s\"%s\n", MC_PROPERTY, mc_known_key[k], mc_known_text[k]);
            nknown++;
        }
    }
    for (int i = 0; i < nall; i++) {
        mc_case_str(&all[i].c, key, sizeof key);
        int dup = 0;
        for (int j = 0; j < i && !dup; j++) {
            char k2[2048];
            mc_case_str(&all[j].c, k2, sizeof k2);
            if (!strcmp(key, k2)) dup = 1;
        }
        if (dup) continue;
        // confirm deterministically in a fresh process before reporting. Hangs are expensive to confirm (each confirmation waits for
        // twice the case limit): after two confirmed hangs the remaining hang reports are dropped, not re-confirmed
        static int nhang_confirmed = 0;
        int is_hang = strstr(all[i].msg, "did not return within") != NULL;
        if (is_hang && nhang_confirmed >= 2) {
            fprintf(stderr, "further hang (not re-confirmed, not reported): %s\n", key);
            continue;
        }
        if (!mc_confirm(&all[i].c, msg, sizeof msg) || (!is_hang && !mc_confirm(&all[i].c, msg, sizeof msg))) {
            fprintf(stderr, "UNREPRODUCED (not reported): %s : %s\n", key, all[i].msg);
            nunrepro++;
            continue;
        }
        if (is_hang) nhang_confirmed++;
        if (nreported < 12) {
            mkdir("replay", 0777);
            mkdir(dir, 0777);
            char path[512];
            snprintf(path, sizeof path, "/verif/replay/%s/%s%s-%d.json", MC_PROPERTY, mc_tier, mc_part, nreported);
            FILE *f = fopen(path, "w");
            if (f) {
                fprintf(f, "{\n \"property\": \"%s\",\n \"tier\": \"%s\",\n \"part\": \"%s\",\n \"case\": \"%s\",\n \"message\": ",
                        MC_PROPERTY, mc_tier, mc_part, key);
                mc_json_str(f, all[i].msg);
                fprintf(f, ",\n \"replay_cmd\": \"./check %s --replay %s\"\n}\n", MC_PROPERTY, path);
                fclose(f);
            }
            printf("VIOLATION property=%s replay=%s\n", MC_PROPERTY, path);
            printf("  case: %s\n  %s\n", key, all[i].msg);
        }
        nreported++;
    }
    if (nreported > 12) printf("(%d further distinct violations not written out)\n", nreported - 12);
    int harness_errors = (int)ctr[MC_NCTR - 1];
    double wall = mc_now() - mc_t0;
    // evidence
    mkdir("evidence", 0777);
    char ep[256], tmp[300];
    if (*mc_part && getenv("VERIF_PART_DIR"))
        snprintf(ep, sizeof ep, "%s/part-%s.json", getenv("VERIF_PART_DIR"), mc_part);
    else if (*mc_part)
        snprintf(ep, sizeof ep, "build/%s/part-%s.json", MC_PROPERTY, mc_part);
    else
        snprintf(ep, sizeof ep, "evidence/%s.json", MC_PROPERTY);
    snprintf(tmp, sizeof tmp, "%s.tmp", ep);
    FILE *f = fopen(tmp, "w");
    if (!f) {
        perror(tmp);
        return 2;
    }
    fprintf(f, "{\n \"property_id\": \"%s\",\n \"tier\": \"%s\",\n \"seed\": %ld,\n \"level\": \"%s\",\n",
            MC_PROPERTY, mc_tier, mc_seed, mc_level);
    fprintf(f, " \"coverage\": {\n");
    fprintf(f, "  \"states\": %" PRIu64 ",\n  \"transitions\": %" PRIu64
               ",\n  \"traces_validated_against_impl\": %" PRIu64 ",\n",
            states ? states : evals, trans ? trans : evals, evals);
    fprintf(f, "  \"evaluations\": %" PRIu64 ",\n  \"distinct_nontrivial\": %" PRIu64 ",\n", evals, nontriv);
    fprintf(f, "  \"rule\": ");
    mc_json_str(f, MC_RULE);
    fprintf(f, ",\n  \"bounds\": ");
    mc_json_str(f, mc_bounds);
    fprintf(f, ",\n  \"exhaustive\": %s,\n", complete && !harness_errors ? "true" : "false");
    fprintf(f, "  \"explanation\": \"every case is executed on the real library built from /repo's working tree and "
               "compared with the reference model; states = distinct inputs explored, transitions = library calls, "
               "traces = cases whose every observation was compared\",\n");
    fprintf(f, "  \"phases\": [");
    for (int i = 0; i < mc_nphases; i++) {
        fprintf(f, "%s\n   {\"name\": ", i ? "," : "");
        mc_json_str(f, mc_phases[i].name);
        fprintf(f, ", \"cases\": %" PRIu64 ", \"complete\": %s, \"wall_s\": %.2f}", mc_phases[i].evals,
                mc_phases[i].complete ? "true" : "false", mc_phases[i].wall);
    }
    fprintf(f, "\n  ],\n  \"counters\": {");
    int first = 1;
    for (int k = 0; MC_CTR_NAMES[k] && k < MC_NCTR - 1; k++) {
        fprintf(f, "%s\"%s\": %" PRIu64, first ? "" : ", ", MC_CTR_NAMES[k], ctr[k]);
        first = 0;
    }
    fprintf(f, "},\n  \"worst_observed\": {");
    first = 1;
    for (int k = 0; MC_MAX_NAMES[k] && k < MC_NMAX; k++) {
        char cs[2048] = "";
        if (maxv[k] > 0) mc_case_str(&maxc[k], cs, sizeof cs);
        fprintf(f, "%s\n   \"%s\": {\"value\": %.6g, \"case\": ", first ? "" : ",", MC_MAX_NAMES[k], maxv[k]);
        mc_json_str(f, cs);
        fprintf(f, "}");
        first = 0;
    }
    fprintf(f, "\n  },\n  \"unreproduced\": %d,\n  \"known_findings\": %d,\n  \"harness_errors\": %d,\n  \"regression_cases_replayed\": %d,\n", nunrepro, nknown,
            harness_errors, nregress);
    fprintf(f, "  \"samples\": [");
    int ns = 0;
    for (int i = 0; i < MC_MAXW && ns < 10; i++)
        for (int k = 0; k < mc_workers[i].nsamples && ns < 10; k++) {
            mc_case_str(&mc_workers[i].samples[k], key, sizeof key);
            fprintf(f, "%s\n   ", ns ? "," : "");
            mc_json_str(f, key);
            ns++;
        }
    if (!ns) {
        fprintf(f, "\n   \"(no case was flagged non-trivial)\"");
    }
    fprintf(f, "\n  ]\n },\n \"assumptions\": [");
    for (int k = 0; MC_ASSUME[k]; k++) {
        fprintf(f, "%s\n  ", k ? "," : "");
        mc_json_str(f, MC_ASSUME[k]);
    }
    fprintf(f, "\n ],\n \"wall_s\": %.2f,\n \"violations\": %d\n}\n", wall, nreported);
    fclose(f);
    rename(tmp, ep);
    fprintf(stderr,
            "[%s] tier=%s cases=%" PRIu64 " nontrivial=%" PRIu64 " calls=%" PRIu64
            " violations=%d (raw %" PRIu64 ") known=%d unreproduced=%d exhaustive=%d %.1fs\n",
            MC_PROPERTY, mc_tier, evals, nontriv, trans, nreported, nviol_total, nknown, nunrepro,
            complete && !harness_errors, wall);
    if (nreported) return 1;
    if (harness_errors) return 2;
    return 0;
}
#endif
