// BUILD: variant=opt
// C08 -- cell boundaries tile the sphere: shared edges coincide, areas sum to 4*pi.
#include "mc.h"
#include "dom.h"

const char *MC_PROPERTY = "C08";
const char *MC_RULE =
    "cell(h): vertex count (hexagon 6, up to 8 at odd resolutions; pentagon 5 even / 10 odd), signed fan area > 0 (counter-clockwise) "
    "and centre strictly inside (winding number in the chart about the centre); for every geometric neighbour n the vertices of h "
    "coinciding (<=1e-12 rad) with vertices of n are 2 or 3, cyclically consecutive in h and in reverse order in n; every vertex of "
    "h is shared with exactly 2 neighbours (topological corner; 6 resp. 5 of them) or 1 (distortion vertex); cellAreaRads2 within "
    "1e-8 relative of the chart fan area; Km2/M2 are rads2 * R^2 (1e-14). sum(r): areas of all cells of a complete resolution "
    "sum to 4*pi within 1e-9. Non-trivial: cell has a distortion vertex (numVerts > 6 or 10), is a pentagon or a pentagon neighbour.";
const char *MC_ASSUME[] = {"GEO chart formulas (fan area by two-sides-and-included-angle, not l'Huilier) and libm", "Earth radius 6371.007180918475 km", NULL};
const char *MC_CTR_NAMES[] = {"oracle_unavailable", "cells_with_distortion_vertices", "pentagons", "stretches_checked", NULL};
const char *MC_MAX_NAMES[] = {"shared_vertex_gap_rad", "area_rel_diff", "unit_scaling_rel_diff", "area_sum_minus_4pi", NULL};
#define R_KM 6371.007180918475

static double *g_sum;  // shared [worker][16][2]
static void op_cell(const McArg *a) {
    uint64_t h = a[0].u;
    CellGeom g;
    mc_trans(10);
    if (cellgeom(h, &g, 1e-12) < 0) {
        // pipeline failure on a valid cell is itself a violation of this property
        mc_fail("cellToLatLng/cellToBoundary/neighbour probing failed for %" PRIx64, h);
        return;
    }
    int res = g.res, nv = g.cb.numVerts, pent = spec_is_pentagon(h);
    if (pent) {
        mc_ctr(2, 1);
        mc_nontrivial();
        MC_CHECK(nv == (res % 2 ? 10 : 5), "pentagon %" PRIx64 " (res %d) has %d boundary vertices", h, res, nv);
    } else {
        MC_CHECK(nv == 6 || (res % 2 && nv >= 6 && nv <= 8), "hexagon %" PRIx64 " (res %d) has %d boundary vertices", h, res, nv);
    }
    if (nv > (pent ? 5 : 6) && !(pent && nv == 10)) mc_ctr(1, 1), mc_nontrivial();
    MC_CHECK(g.nn == (pent ? 5 : 6), "cell %" PRIx64 " has %d geometric neighbours", h, g.nn);
    P2 bv[10];
    for (int i = 0; i < nv; i++) bv[i] = gno(g.c, g.cb.verts[i]);
    double area = fanAreaP(bv, nv);
    MC_CHECK(area > 0, "boundary of %" PRIx64 " is not counter-clockwise (signed fan area %.3g)", h, area);
    P2 o = {0, 0};
    MC_CHECK(inpoly(o, bv, nv) == 1 && polydist(o, bv, nv) > 0, "centre of %" PRIx64 " is not strictly inside its boundary", h);
    for (int i = 0; i < nv; i++)
        for (int j = i + 1; j < nv; j++)
            MC_CHECK(hypot(bv[i].x - bv[j].x, bv[i].y - bv[j].y) > 0, "boundary of %" PRIx64 " repeats vertex %d at %d", h, i, j);
    for (int k = 0; k < g.nn; k++) {
        for (int i = 0; i < 6; i++)
            if (spec_is_pentagon(g.nb[k])) mc_nontrivial();
        mc_ctr(3, 1);
        int cnt = g.cnt[k], nbv = g.nbb[k].numVerts;
        if (cnt < 2 || cnt > 3) {
            double near = 1e9;
            for (int i = 0; i < nv; i++)
                if (g.match[k][i] < 0 && g.matchd[k][i] < near) near = g.matchd[k][i];
            mc_fail("cells %" PRIx64 " and neighbour %" PRIx64 " share %d coinciding boundary vertices (need 2 or 3); nearest unmatched pair %.3g rad apart", h, g.nb[k], cnt, near);
            return;
        }
        MC_CHECK(g.start[k] >= 0, "shared stretch of %" PRIx64 " with %" PRIx64 " has no start", h, g.nb[k]);
        for (int t = 0; t < cnt; t++) {
            int i = (g.start[k] + t) % nv;
            MC_CHECK(g.match[k][i] >= 0, "shared vertices of %" PRIx64 " with %" PRIx64 " are not consecutive", h, g.nb[k]);
            if (t) {
                int pj = g.match[k][(g.start[k] + t - 1) % nv];
                MC_CHECK((g.match[k][i] + 1) % nbv == pj, "shared stretch of %" PRIx64 " with %" PRIx64 " is not traversed in reverse by the neighbour", h, g.nb[k]);
            }
        }
    }
    mc_max(0, g.maxshare);
    int ntopo = 0, ndist = 0;
    for (int i = 0; i < nv; i++) {
        if (g.topo[i] == 2)
            ntopo++;
        else if (g.topo[i] == 1)
            ndist++;
        else {
            mc_fail("vertex %d of %" PRIx64 " coincides with a vertex of %d neighbours (need 2, or 1 for a distortion vertex): gap or overlap", i, h, g.topo[i]);
            return;
        }
    }
    MC_CHECK(ntopo == (pent ? 5 : 6) && ndist == nv - ntopo, "%" PRIx64 " has %d topological corners and %d distortion vertices", h, ntopo, ndist);
    double ar = -1, km2 = -1, m2 = -1;
    MC_CHECK(cellAreaRads2(h, &ar) == 0 && cellAreaKm2(h, &km2) == 0 && cellAreaM2(h, &m2) == 0, "cellArea*(%" PRIx64 ") failed", h);
    double rel = fabs(ar - area) / area;
    mc_max(1, rel);
    MC_CHECK(rel <= 1e-8, "cellAreaRads2(%" PRIx64 ") = %.17g but the boundary encloses %.17g (rel %.3g)", h, ar, area, rel);
    double s1 = fabs(km2 - ar * R_KM * R_KM) / (ar * R_KM * R_KM), s2 = fabs(m2 - ar * R_KM * R_KM * 1e6) / (ar * R_KM * R_KM * 1e6);
    mc_max(2, fmax(s1, s2));
    MC_CHECK(s1 <= 1e-14 && s2 <= 1e-14, "cellAreaKm2/M2(%" PRIx64 ") = %.17g / %.17g are not rads2 %.17g scaled by R^2", h, km2, m2, ar);
    g_sum[(mc_wid * 16 + res) * 2] += ar;
    g_sum[(mc_wid * 16 + res) * 2 + 1] += 1;
}
static void op_sum(const McArg *a) {
    int r = (int)a[0].i;
    double s = 0, n = 0;
    for (int w = 0; w < MC_MAXW; w++) s += g_sum[(w * 16 + r) * 2], n += g_sum[(w * 16 + r) * 2 + 1];
    mc_nontrivial();
    MC_CHECK((int64_t)n == spec_numcells(r), "resolution %d: %.0f cells summed, expected %" PRId64, r, n, spec_numcells(r));
    mc_max(3, fabs(s - 4 * M_PI));
    MC_CHECK(fabs(s - 4 * M_PI) <= 1e-9, "areas of all resolution-%d cells sum to %.17g, 4*pi = %.17g", r, s, 4 * M_PI);
}
// seq(start, stride): bare cellToBoundary / cellAreaRads2 calls over the mixed list in a scrambled order (stride walk), each result compared
// with the result of the same call made in a resolution-by-resolution pass: the boundary of a cell must not depend on which cell was
// processed before it (differences are judged at the property's own 1e-12 rad / vertex count, so rounding noise could never alarm)
static U64Vec g_mix;
static CellBoundary *g_ref;
static double *g_refA;
static void op_seq(const McArg *a) {
    size_t n = g_mix.n, start = (size_t)a[0].i % n, stride = (size_t)a[1].i % n;
    int len = (int)a[2].i;
    if (!g_ref) {
        g_ref = malloc(n * sizeof *g_ref);
        g_refA = malloc(n * sizeof *g_refA);
        for (size_t i = 0; i < n; i++) {  // g_mix is sorted: ascending resolution
            if (cellToBoundary(g_mix.v[i], &g_ref[i])) g_ref[i].numVerts = -1;
            if (cellAreaRads2(g_mix.v[i], &g_refA[i])) g_refA[i] = -1;
        }
    }
    size_t i = start;
    for (int q = 0; q < len; q++, i = (i + stride) % n) {
        CellBoundary cb;
        double A = -1;
        mc_trans(2);
        if (cellToBoundary(g_mix.v[i], &cb)) cb.numVerts = -1;
        if (cellAreaRads2(g_mix.v[i], &A)) A = -1;
        McArg args[1] = {H(g_mix.v[i])};
        if (cb.numVerts != g_ref[i].numVerts) {
            mc_fail("cellToBoundary(%" PRIx64 ") returns %d vertices after the call sequence seq(%zu,%zu) step %d, %d vertices in a resolution-by-resolution pass", g_mix.v[i], cb.numVerts, start, stride, q, g_ref[i].numVerts);
            return;
        }
        for (int v = 0; v < cb.numVerts; v++)
            if (adist(cb.verts[v], g_ref[i].verts[v]) > 1e-12) {
                mc_fail("cellToBoundary(%" PRIx64 ") vertex %d differs by %.3g rad between the call sequence seq(%zu,%zu) step %d and a resolution-by-resolution pass", g_mix.v[i], v, adist(cb.verts[v], g_ref[i].verts[v]), start, stride, q);
                return;
            }
        if (fabs(A - g_refA[i]) > 1e-9 * fabs(g_refA[i])) {
            mc_fail("cellAreaRads2(%" PRIx64 ") = %.17g after the call sequence seq(%zu,%zu) step %d, %.17g in a resolution-by-resolution pass", g_mix.v[i], A, start, stride, q, g_refA[i]);
            return;
        }
        (void)args;
    }
    mc_nontrivial();
}
enum { OP_CELL, OP_SUM, OP_SEQ };
const McOp MC_OPS[] = {{"cell", "h", op_cell}, {"sum", "i", op_sum}, {"seq", "iii", op_seq}};
const int MC_NOPS = 3;

static int g_res;
static void ph_full(void *u) {
    int pr = g_res < 2 ? g_res : 2;
    U64Vec ps = {0};
    dom_full(pr, &ps);
    for (size_t i = 0; i < ps.n; i++) {
        if (!mc_mine(i)) continue;
        if (mc_expired()) return;
        SpecChildIt it;
        for (spec_child_first(&it, ps.v[i], g_res); !it.done; spec_child_next(&it)) {
            mc_states(1);
            MC_RUN(OP_CELL, H(it.h));
        }
    }
}
static void ph_sum(void *u) {
    if (mc_wid == 0) MC_RUN(OP_SUM, I(g_res));
}
static U64Vec g_fine;
static void ph_fine(void *u) {
    for (size_t i = 0; i < g_fine.n; i++) {
        if (!mc_mine(i)) continue;
        if (mc_tick(63)) return;
        mc_states(1);
        MC_RUN(OP_CELL, H(g_fine.v[i]));
    }
}
// the same per-cell oracle over a list that interleaves all 16 resolutions, pentagons, edge-crossing cells and plain hexagons in a
// scrambled order: a result that depends on which cell (resolution, class, face) was processed before shows up here
// cells at the zero crossings of (lat[k+1]-lat[k]) / (lng[k+1]-lng[k]): among them the cells with an exactly east-west / north-south edge
static void ph_axis(void *u) {
    for (int r = 15; r >= 12; r--) {
        U64Vec v = {0};
        dom_axis(r, r == 15 ? (mc_thorough ? 3000 : 400) : (mc_thorough ? 6000 : 600), mc_wid, mc_nw, &v);
        for (size_t i = 0; i < v.n; i++) {
            if (mc_tick(15)) return;
            mc_states(1);
            MC_RUN(OP_CELL, H(v.v[i]));
        }
        uv_free(&v);
    }
}
static void ph_seq(void *u) {
    // strides chosen so that consecutive elements lie in different resolutions / classes; every start residue is covered
    static const size_t strides[] = {1, 7919, 104729, 1299709};
    uint64_t idx = 0;
    size_t n = g_mix.n;
    for (int s = 0; s < 4; s++)
        for (size_t start = 0; start < n; start += 4096, idx++) {
            if (!mc_mine(idx)) continue;
            if (mc_expired()) return;
            // one sequence visits 4096 elements: with stride s the sequences started at 0,4096,.. x (n/s residues) interleave the whole list
            MC_RUN(OP_SEQ, I((int64_t)(start * strides[s] % n)), I((int64_t)(strides[s] % n)), I(4096));
        }
}
static void ph_mixed(void *u) {
    size_t n = g_mix.n, lo = n * mc_wid / mc_nw, hi = n * (mc_wid + 1) / mc_nw;
    for (size_t q = lo; q < hi; q++) {
        if (mc_tick(63)) return;
        size_t i = (size_t)(((unsigned __int128)q * 0x9E3779B97F4A7C15ull) % n);  // bijective only if gcd(mult, n) = 1: n is made odd below
        mc_states(1);
        MC_RUN(OP_CELL, H(g_mix.v[i]));
    }
}
int main(int argc, char **argv) {
    mc_init(argc, argv);
    int fullmax = mc_thorough ? 7 : 5;
    g_sum = mc_shalloc(MC_MAXW * 16 * 2 * sizeof(double));
    snprintf(mc_bounds, sizeof mc_bounds, "FULL(0..%d) complete with area sums; FINE level 0 families + EDGE family (cells on %d points along each of the 30 icosahedron edges, closed under one neighbour step) and MERID (2 rings around the cells where the meridian through each face centre leaves its face) at resolutions %d..15; a scrambled list interleaving pentagons, edge-crossing cells and family cells of all 16 resolutions", fullmax, mc_thorough ? 4000 : 600, fullmax + 1);
    for (g_res = 0; g_res <= fullmax; g_res++) {
        char nm[64];
        snprintf(nm, sizeof nm, "FULL(%d)", g_res);
        mc_phase(nm, ph_full, NULL);
        if (mc_phases[mc_nphases - 1].complete) mc_phase("area sum", ph_sum, NULL);
    }
    for (int r = fullmax + 1; r <= 15; r++) {
        dom_fine_raw(r, 0, &g_fine);
        dom_edge(r, mc_thorough ? 4000 : 600, 1, &g_fine);
        dom_merid(r, 2, &g_fine);
    }
    uv_sortuniq(&g_fine);
    mc_phase("fine families", ph_fine, NULL);
    for (int r = 0; r <= 15; r++) {
        dom_pent(r, r < 1 ? 0 : 1, &g_mix);
        dom_edge(r, mc_thorough ? 200 : 40, 0, &g_mix);
        dom_fine_raw(r, 2, &g_mix);
    }
    uv_sortuniq(&g_mix);
    while (g_mix.n > 1 && (g_mix.n % 2 == 0 || g_mix.n % 3 == 0 || g_mix.n % 5 == 0 || g_mix.n % 7 == 0 || g_mix.n % 11 == 0)) g_mix.n--;
    mc_phase("mixed-resolution scrambled order", ph_mixed, NULL);
    mc_phase("bare call sequences across resolutions", ph_seq, NULL);
    mc_phase("cells with an (almost) exactly axis-parallel edge, res 12-15", ph_axis, NULL);
    return mc_finish();
}
