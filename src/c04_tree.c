// BUILD: variant=opt
// C04 -- parent/children form an exact tree partition of the cells.
#include "mc.h"
#include "dom.h"

const char *MC_PROPERTY = "C04";
const char *MC_RULE =
    "kids(parent, childRes): cellToChildren compared element for element with the spec odometer (pentagon rule), size with "
    "the closed form, first with cellToCenterChild, every child's cellToParent with the parent; parents(x): cellToParent at "
    "every resolution 0..res(x) vs truncate-and-fill, plus every INTS resolution for the error codes; deep(parent, childRes): "
    "non-enumerable depth differences (size, centre child, last child position); centre(parent, childRes): centre of the "
    "centre child within max(2e-12, 4e-15/cos lat) of the parent's centre; part(p, c, baseCell): concatenation of the children "
    "lists of all res-p cells of a base cell, in order, equals the spec enumeration of res c. Non-trivial: parent is a "
    "pentagon or lies under a pentagon base cell, or childRes-res >= 2, or an error-argument case.";
const char *MC_ASSUME[] = {"spec odometer (src/spec.h) = documented child order: digits 0..6, pentagon children skip first non-zero digit 1", NULL};
const char *MC_CTR_NAMES[] = {"children_compared", "pentagon_parents", "error_arg_cases", NULL};
const char *MC_MAX_NAMES[] = {"centre_child_offset_rad", NULL};

static uint64_t *g_buf;
static size_t g_bufcap;
static uint64_t *buf_for(int64_t n) {
    if ((size_t)n + 2 > g_bufcap) {
        g_bufcap = n + 2;
        g_buf = realloc(g_buf, g_bufcap * 8);
    }
    return g_buf;
}
#define CANARY 0xC0FFEE0DDEADBEEFull
static void op_kids(const McArg *a) {
    uint64_t h = a[0].u;
    int c = (int)a[1].i, res = spec_res(h);
    int64_t n = -1, want = spec_children_count(h, c - res);
    int pent = spec_is_pentagon(h);
    if (pent || spec_is_pent_bc(spec_bc(h)) || c - res >= 2) mc_nontrivial();
    if (pent) mc_ctr(1, 1);
    mc_trans(3);
    H3Error e = cellToChildrenSize(h, c, &n);
    MC_CHECK(e == 0 && n == want, "cellToChildrenSize(%" PRIx64 ",%d) = %d,%" PRId64 " expected %" PRId64, h, c, e, n, want);
    uint64_t *b = buf_for(want);
    b[0] = CANARY;
    b[want + 1] = CANARY;
    for (int64_t i = 0; i < want; i++) b[1 + i] = 0;
    e = cellToChildren(h, c, b + 1);
    MC_CHECK(e == 0, "cellToChildren(%" PRIx64 ",%d) returned %d", h, c, e);
    MC_CHECK(b[0] == CANARY && b[want + 1] == CANARY, "cellToChildren(%" PRIx64 ",%d) wrote outside its %" PRId64 " slots", h, c,
             want);
    SpecChildIt it;
    int64_t i = 0;
    for (spec_child_first(&it, h, c); !it.done; spec_child_next(&it), i++) {
        MC_CHECK(i < want, "spec odometer longer than closed form (harness)");
        MC_CHECK(b[1 + i] == it.h, "cellToChildren(%" PRIx64 ",%d)[%" PRId64 "] = %" PRIx64 ", spec child is %" PRIx64, h, c, i,
                 b[1 + i], it.h);
        uint64_t par;
        e = cellToParent(it.h, res, &par);
        MC_CHECK(e == 0 && par == h, "cellToParent(%" PRIx64 ",%d) = %d,%" PRIx64 " expected %" PRIx64, it.h, res, e, par, h);
    }
    mc_trans(i);
    mc_ctr(0, i);
    MC_CHECK(i == want, "spec odometer yields %" PRId64 " children, closed form %" PRId64, i, want);
    uint64_t cc;
    e = cellToCenterChild(h, c, &cc);
    MC_CHECK(e == 0 && cc == b[1], "cellToCenterChild(%" PRIx64 ",%d) = %d,%" PRIx64 " but first child is %" PRIx64, h, c, e, cc,
             b[1]);
}
static void op_parents(const McArg *a) {
    uint64_t x = a[0].u;
    int res = spec_res(x);
    for (int p = 0; p <= res; p++) {
        uint64_t par = 0;
        mc_trans(1);
        H3Error e = cellToParent(x, p, &par);
        MC_CHECK(e == 0 && par == spec_parent(x, p), "cellToParent(%" PRIx64 ",%d) = %d,%" PRIx64 " expected %" PRIx64, x, p, e,
                 par, spec_parent(x, p));
        MC_CHECK(spec_valid(par), "cellToParent(%" PRIx64 ",%d) = %" PRIx64 " is not a valid cell", x, p, par);
    }
    if (res >= 2) mc_nontrivial();
}
static void op_err(const McArg *a) {
    uint64_t h = a[0].u;
    int res = spec_res(h);
    mc_nontrivial();
    mc_ctr(2, 1);
    for (int k = 0; k < DOM_NINTS + 16; k++) {
        int r = k < DOM_NINTS ? (int)DOM_INTS[k] : k - DOM_NINTS;
        uint64_t out = CANARY;
        int64_t n = 0x7777;
        mc_trans(3);
        H3Error e = cellToParent(h, r, &out);
        int want = (r < 0 || r > 15) ? E_RES_DOMAIN : r > res ? E_RES_MISMATCH : 0;
        MC_CHECK((int)e == want, "cellToParent(%" PRIx64 ",%d) returned %d, expected %d", h, r, e, want);
        e = cellToChildrenSize(h, r, &n);
        want = (r < res || r > 15) ? E_RES_DOMAIN : 0;
        MC_CHECK((int)e == want, "cellToChildrenSize(%" PRIx64 ",%d) returned %d, expected %d", h, r, e, want);
        out = CANARY;
        e = cellToCenterChild(h, r, &out);
        MC_CHECK((int)e == want, "cellToCenterChild(%" PRIx64 ",%d) returned %d, expected %d", h, r, e, want);
    }
}
static void op_deep(const McArg *a) {
    uint64_t h = a[0].u;
    int c = (int)a[1].i, res = spec_res(h);
    mc_nontrivial();
    int64_t n = -1, want = spec_children_count(h, c - res);
    mc_trans(3);
    H3Error e = cellToChildrenSize(h, c, &n);
    MC_CHECK(e == 0 && n == want, "cellToChildrenSize(%" PRIx64 ",%d) = %d,%" PRId64 " expected %" PRId64, h, c, e, n, want);
    SpecChildIt it;
    spec_child_first(&it, h, c);
    uint64_t cc;
    e = cellToCenterChild(h, c, &cc);
    MC_CHECK(e == 0 && cc == it.h, "cellToCenterChild(%" PRIx64 ",%d) = %d,%" PRIx64 " expected %" PRIx64, h, c, e, cc, it.h);
    MC_CHECK(spec_valid(cc) && spec_parent(cc, res) == h, "centre child %" PRIx64 " is not a valid descendant", cc);
    uint64_t par;
    e = cellToParent(cc, res, &par);
    MC_CHECK(e == 0 && par == h, "cellToParent(centre child %" PRIx64 ",%d) = %d,%" PRIx64, cc, res, e, par);
}
static void op_centre(const McArg *a) {
    uint64_t h = a[0].u;
    int c = (int)a[1].i;
    uint64_t cc;
    LatLng g0, g1;
    mc_trans(3);
    MC_CHECK(cellToCenterChild(h, c, &cc) == 0, "cellToCenterChild(%" PRIx64 ",%d) failed", h, c);
    MC_CHECK(cellToLatLng(h, &g0) == 0 && cellToLatLng(cc, &g1) == 0, "cellToLatLng failed for %" PRIx64 " or %" PRIx64, h, cc);
    double d = adist(g0, g1), tol = fmax(2e-12, 4e-15 / cos(g0.lat));
    mc_max(0, d);
    if (spec_is_pent_bc(spec_bc(h))) mc_nontrivial();
    MC_CHECK(d <= tol, "centre of cellToCenterChild(%" PRIx64 ",%d)=%" PRIx64 " is %.3g rad from the parent's centre (tol %.3g)", h, c,
             cc, d, tol);
}
// partition: args p c bc
static void op_part(const McArg *a) {
    int p = (int)a[0].i, c = (int)a[1].i, bc = (int)a[2].i;
    int d[15] = {0};
    uint64_t root = spec_mk(0, bc, d);
    SpecChildIt pit, cit;
    spec_child_first(&cit, root, c);
    int64_t total = 0;
    mc_nontrivial();
    for (spec_child_first(&pit, root, p); !pit.done; spec_child_next(&pit)) {
        int64_t n;
        MC_CHECK(cellToChildrenSize(pit.h, c, &n) == 0, "cellToChildrenSize(%" PRIx64 ",%d) failed", pit.h, c);
        uint64_t *b = buf_for(n);
        MC_CHECK(cellToChildren(pit.h, c, b) == 0, "cellToChildren failed");
        mc_trans(2);
        for (int64_t i = 0; i < n; i++, spec_child_next(&cit)) {
            MC_CHECK(!cit.done, "children of res-%d cells of base cell %d exceed the cells of res %d", p, bc, c);
            MC_CHECK(b[i] == cit.h, "partition broken: child %" PRId64 " of %" PRIx64 " at res %d is %" PRIx64 ", next cell in the spec "
                     "enumeration is %" PRIx64, i, pit.h, c, b[i], cit.h);
        }
        total += n;
    }
    MC_CHECK(cit.done, "children of res-%d cells of base cell %d do not cover res %d: next uncovered %" PRIx64, p, bc, c, cit.h);
    mc_ctr(0, total);
}
static void op_counts(const McArg *a) {
    mc_nontrivial();
    for (int r = 0; r <= 15; r++) {
        int64_t n;
        mc_trans(1);
        MC_CHECK(getNumCells(r, &n) == 0 && n == spec_numcells(r), "getNumCells(%d) = %" PRId64, r, n);
    }
}
enum { OP_KIDS, OP_PARENTS, OP_ERR, OP_DEEP, OP_CENTRE, OP_PART, OP_COUNTS };
const McOp MC_OPS[] = {{"kids", "hi", op_kids},     {"parents", "h", op_parents}, {"err", "h", op_err},   {"deep", "hi", op_deep},
                       {"centre", "hi", op_centre}, {"part", "iii", op_part},     {"counts", "", op_counts}};
const int MC_NOPS = 7;

static U64Vec g_full, g_fine;
static int g_fulldepth, g_finedepth;
static void ph_full(void *u) {
    for (size_t i = 0; i < g_full.n; i++) {
        if (!mc_mine(i)) continue;
        if (mc_tick(15)) return;
        uint64_t h = g_full.v[i];
        mc_states(1);
        for (int c = spec_res(h); c <= spec_res(h) + g_fulldepth && c <= 15; c++) MC_RUN(OP_KIDS, H(h), I(c));
        MC_RUN(OP_PARENTS, H(h));
    }
}
static void ph_fine(void *u) {
    for (size_t i = 0; i < g_fine.n; i++) {
        if (!mc_mine(i)) continue;
        if (mc_tick(15)) return;
        uint64_t h = g_fine.v[i];
        int res = spec_res(h);
        mc_states(1);
        for (int c = res; c <= res + g_finedepth && c <= 15; c++) MC_RUN(OP_KIDS, H(h), I(c));
        for (int c = res + g_finedepth + 1; c <= 15; c++) MC_RUN(OP_DEEP, H(h), I(c));
        for (int c = res; c <= 15; c++) MC_RUN(OP_CENTRE, H(h), I(c));
        MC_RUN(OP_PARENTS, H(h));
        if (i % 7 == 0 || spec_is_pentagon(h)) MC_RUN(OP_ERR, H(h));
    }
}
static void ph_part(void *u) {
    int maxc = *(int *)u;
    uint64_t idx = 0;
    for (int c = 1; c <= maxc; c++)
        for (int p = 0; p < c; p++)
            for (int bc = 0; bc < 122; bc++, idx++) {
                if (!mc_mine(idx)) continue;
                if (mc_expired()) return;
                MC_RUN(OP_PART, I(p), I(c), I(bc));
            }
    if (mc_wid == 0) MC_RUN(OP_COUNTS, H(0));
}
int main(int argc, char **argv) {
    mc_init(argc, argv);
    int fullmax = mc_thorough ? 5 : 4, partmax = 8;
    g_fulldepth = mc_thorough ? 5 : 4;
    g_finedepth = 5;
    for (int r = 0; r <= fullmax; r++) dom_full(r, &g_full);
    for (int r = 0; r <= 15; r++) dom_fine(r, mc_thorough ? 1 : 2, &g_fine);
    uv_sortuniq(&g_fine);
    snprintf(mc_bounds, sizeof mc_bounds,
             "parents FULL(0..%d) x child res up to +%d; FINE level %d parents (%zu cells, all 16 resolutions) x child res up "
             "to +%d enumerated, deeper ones size/centre/parent only; partition for child res <= %d from every coarser res",
             fullmax, g_fulldepth, mc_thorough ? 1 : 2, g_fine.n, g_finedepth, partmax);
    mc_phase("full resolutions", ph_full, NULL);
    mc_phase("fine families", ph_fine, NULL);
    mc_phase("partition by base cell", ph_part, &partmax);
    return mc_finish();
}
