// ledger.h -- ALLOC: ledger allocator behind the library's own H3_ALLOC_PREFIX seam (vf_malloc, ...).
// Tracks live blocks, detects double / foreign frees, counts allocation calls, can fail chosen indexes,
// poisons fresh malloc blocks. Define LEDGER_MT for a mutex-protected variant (free-running threads).
#ifndef LEDGER_H
#define LEDGER_H
#include <stdint.h>
#include <stdlib.h>
#include <string.h>
#ifdef LEDGER_MT
#include <pthread.h>
static pthread_mutex_t lg_mu = PTHREAD_MUTEX_INITIALIZER;
#define LG_LOCK() pthread_mutex_lock(&lg_mu)
#define LG_UNLOCK() pthread_mutex_unlock(&lg_mu)
#else
#define LG_LOCK()
#define LG_UNLOCK()
#endif

#define LG_CAP (1 << 16)
static void *lg_tab[LG_CAP];
static long lg_live, lg_nalloc, lg_errors, lg_peak, lg_used;
static long lg_fail1, lg_fail2, lg_failfrom;  // 1-based indexes; 0 = off
static unsigned char lg_poison = 0xA5;
#ifdef LEDGER_TLS
static __thread long lg_tn, lg_tfail;  // per-thread allocation counter / per-thread failing index (0 = off)
#endif
static void (*lg_hook)(int kind);  // optional scheduling point: 0 alloc, 1 free

static void lg_reset(void) {
    LG_LOCK();
    if (lg_live || lg_used > 2048) {
        memset(lg_tab, 0, sizeof lg_tab);
        lg_used = 0;
    }
    lg_live = lg_nalloc = lg_errors = lg_peak = 0;
    LG_UNLOCK();
}
static void lg_arm(long f1, long f2, long from) {
    lg_fail1 = f1;
    lg_fail2 = f2;
    lg_failfrom = from;
    lg_nalloc = 0;
}
static int lg_add(void *p) {
    size_t k = ((uintptr_t)p >> 4) * 0x9E3779B97F4A7C15ull >> 48;
    for (size_t i = 0; i < LG_CAP; i++) {
        size_t j = (k + i) & (LG_CAP - 1);
        if (!lg_tab[j] || lg_tab[j] == (void *)1) {
            if (!lg_tab[j]) lg_used++;
            lg_tab[j] = p;
            lg_live++;
            if (lg_live > lg_peak) lg_peak = lg_live;
            return 1;
        }
    }
    return 0;
}
static int lg_del(void *p) {
    size_t k = ((uintptr_t)p >> 4) * 0x9E3779B97F4A7C15ull >> 48;
    for (size_t i = 0; i < LG_CAP; i++) {
        size_t j = (k + i) & (LG_CAP - 1);
        if (!lg_tab[j]) return 0;
        if (lg_tab[j] == p) {
            lg_tab[j] = (void *)1;  // tombstone
            lg_live--;
            return 1;
        }
    }
    return 0;
}
static int lg_should_fail(void) {
    long i = ++lg_nalloc;
#ifdef LEDGER_TLS
    ++lg_tn;
    if (lg_tfail && lg_tn == lg_tfail) return 1;
#endif
    return (lg_fail1 && i == lg_fail1) || (lg_fail2 && i == lg_fail2) || (lg_failfrom && i >= lg_failfrom);
}
void *vf_malloc(size_t n) {
    if (lg_hook) lg_hook(0);
    LG_LOCK();
    int f = lg_should_fail();
    LG_UNLOCK();
    if (f) return NULL;
    void *p = malloc(n ? n : 1);
    if (!p) return NULL;
    memset(p, lg_poison, n);
    LG_LOCK();
    lg_add(p);
    LG_UNLOCK();
    return p;
}
void *vf_calloc(size_t a, size_t b) {
    if (lg_hook) lg_hook(0);
    LG_LOCK();
    int f = lg_should_fail();
    LG_UNLOCK();
    if (f) return NULL;
    void *p = calloc(a ? a : 1, b ? b : 1);
    if (!p) return NULL;
    LG_LOCK();
    lg_add(p);
    LG_UNLOCK();
    return p;
}
void *vf_realloc(void *q, size_t n) {
    if (lg_hook) lg_hook(0);
    LG_LOCK();
    int f = lg_should_fail();
    LG_UNLOCK();
    if (f) return NULL;
    LG_LOCK();
    if (q && !lg_del(q)) lg_errors++;
    LG_UNLOCK();
    void *p = realloc(q, n ? n : 1);
    LG_LOCK();
    if (p) lg_add(p);
    LG_UNLOCK();
    return p;
}
void vf_free(void *p) {
    if (lg_hook) lg_hook(1);
    if (!p) return;
    LG_LOCK();
    int ok = lg_del(p);
    if (!ok) lg_errors++;
    LG_UNLOCK();
    if (ok) free(p);
}
#endif
