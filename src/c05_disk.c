// BUILD: variant=opt
// C05 -- gridDisk family equals breadth-first search on a symmetric neighbour graph.
#include "mc.h"
#include "dom.h"

const char *MC_PROPERTY = "C05";
const char *MC_RULE =
    "disk(origin, k): gridDisk, gridDiskDistances, gridDiskDistancesSafe (set + exact distances, no duplicates, canary after "
    "maxGridDiskSize(k) slots), gridDiskUnsafe, gridDiskDistancesUnsafe (error, or the ball in ring order with exactly 3k(k+1)+1 "
    "cells), gridRingUnsafe (error, or exactly the cells at distance k) compared with BFS(origin, k) on G_geo -- the graph obtained "
    "by probing across each boundary segment of a cell with latLngToCell (no traversal table involved), verified symmetric and of "
    "degree 6/5. nbr(a): areNeighborCells(a,b) for every b in BFS ball(a,3) is true iff distance 1; wrong-mode / mixed-resolution "
    "pairs. disks(origin): gridDisksUnsafe on 1-,2-,3-element prefixes of the ring. Non-trivial: the ball contains a pentagon or "
    "crosses a base-cell boundary.";
const char *MC_ASSUME[] = {"G_geo: point<->cell<->boundary pipeline (judged by C02/C03/C08) + symmetric/degree sanity check; cells where the "
                           "sanity check fails are counted oracle_unavailable and excluded",
                           NULL};
const char *MC_CTR_NAMES[] = {"oracle_unavailable", "balls_with_pentagon", "unsafe_errors", "unsafe_successes", "neighbor_pairs_true",
                              "neighbor_pairs_false", "ball_cells_compared", NULL};
const char *MC_MAX_NAMES[] = {NULL};
#define CANARY 0xC0FFEE0DDEADBEEFull

static OGraph G;
static int G_init;
#define MAXBALL 32768
static uint64_t ballc[MAXBALL];
static int balld[MAXBALL];

// verified neighbours: symmetric check (u in nbrs(v) for all v in nbrs(u))
static int vnbrs(uint64_t u, uint64_t *out) {
    int n = og_nbrs(&G, u, out);
    if (n < 0) return -1;
    for (int i = 0; i < n; i++) {
        uint64_t nb[8];
        int m = og_nbrs(&G, out[i], nb), f = 0;
        if (m < 0) return -1;
        for (int j = 0; j < m; j++) f |= nb[j] == u;
        if (!f) return -1;
    }
    return n;
}
// BFS ball with verification of every expanded node; returns count or -1
static int ball(uint64_t h, int k) {
    if (!G_init) og_init(&G, 1 << 16), G_init = 1;
    if (G.n > 3000000) og_clear(&G);
    int n = og_ball(&G, h, k, ballc, balld, MAXBALL);
    if (n < 0) return n;
    // symmetric verification for all nodes at distance < k (their neighbour lists were used)
    for (int i = 0; i < n; i++) {
        if (balld[i] >= k && k > 0) continue;
        uint64_t nb[8];
        if (vnbrs(ballc[i], nb) < 0) return -1;
    }
    return n;
}
static int ball_dist(int n, uint64_t c) {
    ONode *nd = og_get(&G, c);
    if (nd->mark != G.epoch) return -1;
    return nd->dist;
}
static int is_seam(int n) {
    int pent = 0, bc = spec_bc(ballc[0]);
    for (int i = 0; i < n; i++) {
        if (spec_is_pentagon(ballc[i])) pent = 1;
        if (spec_bc(ballc[i]) != bc) pent |= 2;
    }
    return pent;
}
static int cmp_set(const char *fn, uint64_t h, int k, const uint64_t *out, const int *dist, int64_t slots, int n) {
    // every non-zero output must be in the ball with its BFS distance, no duplicates, count == n
    int cnt = 0;
    G.epoch++;  // use a second epoch for duplicate marking: mark field reused => keep ball marks via dist lookup first
    int32_t dupep = G.epoch;
    for (int64_t i = 0; i < slots; i++) {
        if (!out[i]) continue;
        ONode *nd = og_get(&G, out[i]);
        if (nd->mark == dupep) {
            mc_fail("%s(%" PRIx64 ",%d) returned %" PRIx64 " twice", fn, h, k, out[i]);
            return 0;
        }
        if (nd->mark != dupep - 1) {
            mc_fail("%s(%" PRIx64 ",%d) returned %" PRIx64 " which is not within %d neighbour steps", fn, h, k, out[i], k);
            return 0;
        }
        if (dist && dist[i] != nd->dist) {
            mc_fail("%s(%" PRIx64 ",%d) reports distance %d for %" PRIx64 ", BFS distance is %d", fn, h, k, dist[i], out[i], nd->dist);
            return 0;
        }
        nd->mark = dupep;
        cnt++;
    }
    // restore marks to ball epoch for the following comparisons
    for (int i = 0; i < n; i++) {
        ONode *nd = og_get(&G, ballc[i]);
        if (nd->mark != dupep && !mc_w->cur_failed) {
            mc_fail("%s(%" PRIx64 ",%d) misses %" PRIx64 " at BFS distance %d", fn, h, k, ballc[i], balld[i]);
        }
        nd->mark = dupep;
    }
    mc_ctr(6, n);
    return !mc_w->cur_failed && cnt == n;
}
static int g_skipsafe;  // large k: the recursive safe algorithm is not called directly (gridDisk still falls back to it when needed)
static void op_disk(const McArg *a) {
    uint64_t h = a[0].u;
    int k = (int)a[1].i;
    int n = ball(h, k);
    if (n < 0) {
        if (n == -2) return;  // ball larger than the harness buffer: not explored
        mc_ctr(0, 1);
        return;
    }
    int seam = is_seam(n);
    if (seam) mc_nontrivial();
    if (seam & 1) mc_ctr(1, 1);
    int64_t slots = -1;
    mc_trans(8);
    MC_CHECK(maxGridDiskSize(k, &slots) == 0 && slots == 3 * (int64_t)k * (k + 1) + 1, "maxGridDiskSize(%d) = %" PRId64, k, slots);
    MC_CHECK(n <= slots, "BFS ball of %" PRIx64 " k=%d has %d cells > maxGridDiskSize %" PRId64, h, k, n, slots);
    uint64_t *out = calloc(slots + 1, 8);
    int *dist = calloc(slots + 1, sizeof(int));
    H3Error e;
#define RESET()                                  \
    memset(out, 0, (slots + 1) * 8);             \
    memset(dist, 0, (slots + 1) * sizeof(int));  \
    out[slots] = CANARY;                         \
    dist[slots] = 0x5A5A5A5A;
#define GUARD(fn)                                                                                     \
    if (out[slots] != CANARY || dist[slots] != 0x5A5A5A5A) {                                          \
        mc_fail("%s(%" PRIx64 ",%d) wrote beyond maxGridDiskSize(k) slots", fn, h, k);                \
        goto done;                                                                                    \
    }
    RESET();
    e = gridDisk(h, k, out);
    GUARD("gridDisk");
    if (e) {
        mc_fail("gridDisk(%" PRIx64 ",%d) returned %d", h, k, e);
        goto done;
    }
    if (!cmp_set("gridDisk", h, k, out, NULL, slots, n)) goto done;
    RESET();
    e = gridDiskDistances(h, k, out, dist);
    GUARD("gridDiskDistances");
    if (e) {
        mc_fail("gridDiskDistances(%" PRIx64 ",%d) returned %d", h, k, e);
        goto done;
    }
    if (!cmp_set("gridDiskDistances", h, k, out, dist, slots, n)) goto done;
    if (!g_skipsafe) {
        RESET();
        e = gridDiskDistancesSafe(h, k, out, dist);
        GUARD("gridDiskDistancesSafe");
        if (e) {
            mc_fail("gridDiskDistancesSafe(%" PRIx64 ",%d) returned %d", h, k, e);
            goto done;
        }
        if (!cmp_set("gridDiskDistancesSafe", h, k, out, dist, slots, n)) goto done;
    }
    // unsafe variants
    for (int v = 0; v < 2; v++) {
        const char *fn = v ? "gridDiskDistancesUnsafe" : "gridDiskUnsafe";
        RESET();
        e = v ? gridDiskDistancesUnsafe(h, k, out, dist) : gridDiskUnsafe(h, k, out);
        GUARD(fn);
        if (e) {
            mc_ctr(2, 1);
            if (e > 15) mc_fail("%s(%" PRIx64 ",%d) returned undocumented code %d", fn, h, k, e);
            continue;
        }
        mc_ctr(3, 1);
        if (n != slots) {
            mc_fail("%s(%" PRIx64 ",%d) succeeded although the disk has %d cells, not %" PRId64 " (pentagon distortion)", fn, h, k, n, slots);
            goto done;
        }
        for (int64_t i = 0; i < slots; i++) {
            int ring = 0;
            while (3 * ring * (ring + 1) + 1 <= i) ring++;
            if (!out[i]) {
                mc_fail("%s(%" PRIx64 ",%d) left slot %" PRId64 " empty", fn, h, k, i);
                goto done;
            }
            ONode *nd = og_get(&G, out[i]);
            if (nd->mark != G.epoch || nd->dist != ring || (v && dist[i] != ring)) {
                mc_fail("%s(%" PRIx64 ",%d) slot %" PRId64 " = %" PRIx64 " (reported distance %d): BFS distance %d, ring order requires %d", fn, h, k, i,
                        out[i], v ? dist[i] : -1, nd->mark == G.epoch ? nd->dist : -1, ring);
                goto done;
            }
        }
        if (!cmp_set(fn, h, k, out, v ? dist : NULL, slots, n)) goto done;
    }
done:
    free(out);
    free(dist);
}
static void op_ring(const McArg *a) {
    uint64_t h = a[0].u;
    int k = (int)a[1].i;
    int n = ball(h, k);
    if (n < 0) {
        if (n == -1) mc_ctr(0, 1);
        return;
    }
    if (is_seam(n)) mc_nontrivial();
    int64_t slots = k ? 6 * k : 1;
    uint64_t *out = calloc(slots + 1, 8);
    int *dist = NULL;
    H3Error e;
    mc_trans(1);
    // ring
    {
        int64_t rs = k ? 6 * k : 1;
        out[slots] = CANARY;
        e = gridRingUnsafe(h, k, out);
        if (out[slots] != CANARY) {
            mc_fail("gridRingUnsafe(%" PRIx64 ",%d) wrote beyond 6k slots", h, k);
            goto done;
        }
        if (e) {
            mc_ctr(2, 1);
            if (e > 15) mc_fail("gridRingUnsafe returned undocumented code %d", e);
        } else {
            mc_ctr(3, 1);
            int want = 0;
            for (int i = 0; i < n; i++) want += balld[i] == k;
            int cnt = 0;
            for (int64_t i = 0; i < rs; i++) {
                if (!out[i]) {
                    mc_fail("gridRingUnsafe(%" PRIx64 ",%d) left slot %" PRId64 " empty", h, k, i);
                    goto done;
                }
                for (int64_t j = 0; j < i; j++)
                    if (out[j] == out[i]) {
                        mc_fail("gridRingUnsafe(%" PRIx64 ",%d) returned %" PRIx64 " twice", h, k, out[i]);
                        goto done;
                    }
                ONode *nd = og_get(&G, out[i]);
                if (nd->mark != G.epoch || nd->dist != k) {
                    mc_fail("gridRingUnsafe(%" PRIx64 ",%d) returned %" PRIx64 " whose BFS distance is %d", h, k, out[i], nd->mark == G.epoch ? nd->dist : -1);
                    goto done;
                }
                cnt++;
            }
            if (cnt != want || want != rs) mc_fail("gridRingUnsafe(%" PRIx64 ",%d) succeeded with %d cells; the ring at distance %d has %d cells (6k = %" PRId64 ")", h, k, cnt, k, want, rs);
        }
    }
done:
    free(out);
}
static void op_nbr(const McArg *a) {
    uint64_t h = a[0].u;
    int n = ball(h, 3);
    if (n < 0) {
        mc_ctr(0, 1);
        return;
    }
    if (is_seam(n)) mc_nontrivial();
    int deg = 0;
    for (int i = 0; i < n; i++) {
        int out = -5;
        mc_trans(1);
        H3Error e = areNeighborCells(h, ballc[i], &out);
        MC_CHECK(e == 0, "areNeighborCells(%" PRIx64 ",%" PRIx64 ") returned %d", h, ballc[i], e);
        MC_CHECK(out == (balld[i] == 1), "areNeighborCells(%" PRIx64 ",%" PRIx64 ") = %d but the cells are %d neighbour steps apart", h, ballc[i], out, balld[i]);
        deg += balld[i] == 1;
        mc_ctr(balld[i] == 1 ? 4 : 5, 1);
    }
    MC_CHECK(deg == (spec_is_pentagon(h) ? 5 : 6), "cell %" PRIx64 " has %d neighbours", h, deg);
    // wrong mode / resolution arguments
    uint64_t nb = ballc[1];
    int out = -5;
    uint64_t par = spec_res(h) ? spec_parent(nb, spec_res(h) - 1) : 0;
    if (par) {
        H3Error e = areNeighborCells(h, par, &out);
        MC_CHECK(e == E_RES_MISMATCH, "areNeighborCells(%" PRIx64 ",%" PRIx64 ") with differing resolutions returned %d", h, par, e);
    }
    uint64_t edge = (nb & ~((uint64_t)15 << 59)) | ((uint64_t)2 << 59) | ((uint64_t)1 << 56);
    H3Error e = areNeighborCells(h, edge, &out);
    MC_CHECK(e != 0 || out == 0, "areNeighborCells(%" PRIx64 ", non-cell %" PRIx64 ") = success,%d", h, edge, out);
    e = areNeighborCells(edge, h, &out);
    MC_CHECK(e != 0 || out == 0, "areNeighborCells(non-cell %" PRIx64 ",%" PRIx64 ") = success,%d", edge, h, out);
}
static void op_disks(const McArg *a) {
    uint64_t h = a[0].u;
    int k = (int)a[1].i;
    int n = ball(h, 1);
    if (n < 0) {
        mc_ctr(0, 1);
        return;
    }
    uint64_t set[3];
    int ns = 0;
    for (int i = 0; i < n && ns < 3; i++) set[ns++] = ballc[i];
    int64_t seg = 3 * k * (k + 1) + 1;
    uint64_t *out = calloc(seg * 3 + 1, 8);
    for (int len = 1; len <= ns; len++) {
        memset(out, 0, (seg * 3 + 1) * 8);
        out[seg * len] = CANARY;
        mc_trans(1);
        H3Error e = gridDisksUnsafe(set, len, k, out);
        if (out[seg * len] != CANARY) {
            mc_fail("gridDisksUnsafe(len %d, k %d) from %" PRIx64 " wrote beyond length*maxGridDiskSize slots", len, k, h);
            break;
        }
        if (e) {
            mc_ctr(2, 1);
            continue;
        }
        mc_ctr(3, 1);
        for (int s = 0; s < len && !mc_w->cur_failed; s++) {
            int m = ball(set[s], k);
            if (m < 0) break;
            if (is_seam(m)) mc_nontrivial();
            if (m != seg) {
                mc_fail("gridDisksUnsafe succeeded although the disk of %" PRIx64 " k=%d has %d cells", set[s], k, m);
                break;
            }
            for (int64_t i = 0; i < seg; i++) {
                int ring = 0;
                while (3 * ring * (ring + 1) + 1 <= i) ring++;
                uint64_t c = out[s * seg + i];
                ONode *nd = c ? og_get(&G, c) : NULL;
                if (!c || nd->mark != G.epoch || nd->dist != ring) {
                    mc_fail("gridDisksUnsafe segment %d (origin %" PRIx64 ", k=%d) slot %" PRId64 " = %" PRIx64 ": not at BFS distance %d", s, set[s], k, i, c, ring);
                    break;
                }
            }
            if (!mc_w->cur_failed) cmp_set("gridDisksUnsafe", set[s], k, out + s * seg, NULL, seg, m);
        }
    }
    free(out);
}
static void op_maxsize(const McArg *a) {
    mc_nontrivial();
    for (int i = 0; i < DOM_NINTS; i++) {
        int k = (int)DOM_INTS[i];
        int64_t out = 0x7777;
        H3Error e = maxGridDiskSize(k, &out);
        if (k < 0)
            MC_CHECK(e == E_DOMAIN, "maxGridDiskSize(%d) returned %d", k, e);
        else if (k < 1000000)
            MC_CHECK(e == 0 && out == 3 * (int64_t)k * (k + 1) + 1, "maxGridDiskSize(%d) = %d,%" PRId64, k, e, out);
        else
            MC_CHECK(e == 0 && out > 0, "maxGridDiskSize(%d) = %d,%" PRId64, k, e, out);
    }
    for (int k = 0; k < 2000; k++) {
        int64_t out;
        MC_CHECK(maxGridDiskSize(k, &out) == 0 && out == 3 * (int64_t)k * (k + 1) + 1, "maxGridDiskSize(%d) = %" PRId64, k, out);
    }
}
// diskbig(h,k): op_disk for large k without the direct call of the recursive safe algorithm
static void op_diskbig(const McArg *a) {
    g_skipsafe = 1;
    op_disk(a);
    g_skipsafe = 0;
    if (G.n > 1200000) og_clear(&G);
}
// nbrx(a): areNeighborCells(a, b) for every single-field deviation b of a -- the same digits under every other base cell, and every other
// value of every digit -- must be true exactly when b is a geometric neighbour of a (almost all of these pairs are far apart)
static void op_nbrx(const McArg *a) {
    uint64_t h = a[0].u, nb[8];
    int r = spec_res(h);
    if (!G_init) og_init(&G, 1 << 16), G_init = 1;
    int m = og_nbrs(&G, h, nb);
    if (m < 0) {
        mc_ctr(0, 1);
        return;
    }
    for (int pass = 0; pass < 2; pass++)
        for (int f = 0; f < (pass ? 15 : 122); f++)
            for (int v = 0; v < (pass ? 7 : 1); v++) {
                uint64_t b;
                if (!pass)
                    b = (h & ~((uint64_t)127 << 45)) | ((uint64_t)f << 45);
                else {
                    if (f >= r) continue;
                    b = spec_set_digit(h, f + 1, v);
                }
                if (b == h || !spec_valid(b)) continue;
                int want = 0, out = -5;
                for (int q = 0; q < m; q++) want |= nb[q] == b;
                mc_trans(2);
                H3Error e = areNeighborCells(h, b, &out);
                MC_CHECK(e == 0 && out == want, "areNeighborCells(%" PRIx64 ",%" PRIx64 ") = %d,%d but the cells are %sgeometric neighbours", h, b, e, out, want ? "" : "not ");
                e = areNeighborCells(b, h, &out);
                MC_CHECK(e == 0 && out == want, "areNeighborCells(%" PRIx64 ",%" PRIx64 ") = %d,%d but the cells are %sgeometric neighbours", b, h, e, out, want ? "" : "not ");
                mc_ctr(want ? 4 : 5, 1);
            }
    if (r >= 10) mc_nontrivial();
}
enum { OP_DISK, OP_NBR, OP_DISKS, OP_MAXSIZE, OP_RING, OP_DISKBIG, OP_NBRX };
const McOp MC_OPS[] = {{"disk", "hi", op_disk}, {"nbr", "h", op_nbr}, {"disks", "hi", op_disks}, {"maxsize", "", op_maxsize}, {"ring", "hi", op_ring}, {"diskbig", "hi", op_diskbig}, {"nbrx", "h", op_nbrx}};
const int MC_NOPS = 7;

static U64Vec g_dom;
static int g_K;
static void ph_cells(void *u) {
    // contiguous blocks so that each worker's on-demand graph stays local
    size_t lo = g_dom.n * mc_wid / mc_nw, hi = g_dom.n * (mc_wid + 1) / mc_nw;
    for (size_t i = lo; i < hi; i++) {
        if (mc_tick(15)) return;
        uint64_t h = g_dom.v[i];
        mc_states(1);
        for (int k = 0; k <= g_K; k++) MC_RUN(OP_DISK, H(h), I(k));
        for (int k = 0; k <= g_K; k++) MC_RUN(OP_RING, H(h), I(k));
        MC_RUN(OP_NBR, H(h));
        for (int k = 0; k <= 2 && k <= g_K; k++) MC_RUN(OP_DISKS, H(h), I(k));
    }
}
static int g_bigK;
static void ph_big(void *u) {
    // origins within 2 steps of a pentagon at res <= 2, k up to g_bigK
    uint64_t idx = 0;
    for (size_t i = 0; i < g_dom.n; i++)
        for (int k = g_K + 1; k <= g_bigK; k++, idx++) {
            if (!mc_mine(idx)) continue;
            if (mc_expired()) return;
            MC_RUN(OP_DISK, H(g_dom.v[i]), I(k));
            MC_RUN(OP_RING, H(g_dom.v[i]), I(k));
        }
    if (mc_wid == 0) MC_RUN(OP_MAXSIZE, H(0));
}
static int g_step;
static const int *g_ks;
static void ph_bigk(void *u) {
    size_t nsel = (g_dom.n + g_step - 1) / g_step, lo = nsel * mc_wid / mc_nw, hi = nsel * (mc_wid + 1) / mc_nw;
    for (size_t q = lo; q < hi; q++) {
        if (mc_expired()) return;
        for (int j = 0; g_ks[j]; j++) MC_RUN(OP_DISKBIG, H(g_dom.v[q * g_step]), I(g_ks[j]));
    }
}
static void ph_nbrx(void *u) {
    size_t lo = g_dom.n * mc_wid / mc_nw, hi = g_dom.n * (mc_wid + 1) / mc_nw;
    for (size_t i = lo; i < hi; i++) {
        if (mc_tick(63)) return;
        MC_RUN(OP_NBRX, H(g_dom.v[i]));
    }
}
int main(int argc, char **argv) {
    mc_init(argc, argv);
    int fullmax = mc_thorough ? 5 : 3;
    static const int Kq[] = {8, 8, 5, 3, 0, 0}, Kt[] = {8, 8, 7, 5, 3, 3};
    snprintf(mc_bounds, sizeof mc_bounds,
             "every origin of FULL(r) x k<=K_r, K = %s; origins within 2 steps of a pentagon at r<=2 with k up to %d; FINE level %d origins "
             "at r=%d..15 with k<=%d; areNeighborCells for every b within 3 steps and for every single-field deviation b (same digits under each other base cell, each other value of "
             "each digit); gridDisksUnsafe k<=2; large k (res 3: 12..33, res 4: 26..70) from thinned origins",
             mc_thorough ? "8,8,7,5,3,3 (r=0..5)" : "8,8,5,3 (r=0..3)", mc_thorough ? 30 : 16, mc_thorough ? 1 : 2, fullmax + 1, mc_thorough ? 3 : 2);
    for (int r = 0; r <= fullmax; r++) {
        g_dom.n = 0;
        dom_full(r, &g_dom);
        g_K = mc_thorough ? Kt[r] : Kq[r];
        char nm[64];
        snprintf(nm, sizeof nm, "FULL(%d) k<=%d", r, g_K);
        mc_phase(nm, ph_cells, NULL);
    }
    for (int r = 0; r <= 2; r++) {
        g_dom.n = 0;
        dom_pent(r, 0, &g_dom);
        dom_close1(&g_dom);
        dom_close1(&g_dom);
        g_K = mc_thorough ? Kt[r] : Kq[r];
        g_bigK = mc_thorough ? 30 : 16;
        char nm[64];
        snprintf(nm, sizeof nm, "pentagon area res %d k<=%d", r, g_bigK);
        mc_phase(nm, ph_big, NULL);
    }
    for (int r = fullmax + 1; r <= 15; r++) {
        g_dom.n = 0;
        if (mc_thorough)
            dom_fine(r, 1, &g_dom);
        else
            dom_fine_raw(r, 2, &g_dom);
        g_K = mc_thorough ? 3 : 2;
        char nm[64];
        snprintf(nm, sizeof nm, "FINE(%d) k<=%d", r, g_K);
        mc_phase(nm, ph_cells, NULL);
    }
    g_dom.n = 0;
    for (int r = 1; r <= 15; r++) dom_fine_raw(r, 2, &g_dom);
    mc_phase("areNeighborCells on single-field deviations (all resolutions)", ph_nbrx, NULL);
    // large k away from the pentagons: every g_step-th origin of FULL(3) / FULL(4)
    {
        static const int k3q[] = {12, 26, 0}, k3t[] = {12, 25, 33, 0}, k4q[] = {26, 0}, k4t[] = {40, 70, 0};
        g_dom.n = 0;
        dom_full(3, &g_dom);
        g_step = mc_thorough ? 9 : 23;
        g_ks = mc_thorough ? k3t : k3q;
        mc_phase("FULL(3) thinned, large k (unsafe walks, gridDisk, gridDiskDistances)", ph_bigk, NULL);
        g_dom.n = 0;
        dom_full(4, &g_dom);
        g_step = mc_thorough ? 293 : 601;
        g_ks = mc_thorough ? k4t : k4q;
        mc_phase("FULL(4) thinned, large k", ph_bigk, NULL);
    }
    return mc_finish();
}
