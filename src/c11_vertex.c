// BUILD: variant=opt
// C11 -- vertex indexes are canonical: one index per corner, shared by its three cells.
#include "mc.h"
#include "dom.h"

const char *MC_PROPERTY = "C11";
const char *MC_RULE =
    "cell(h): cellToVertexes gives 6 (pentagon: 5 + one null slot) distinct indexes of mode 4 accepted by isValidVertex, slot i == "
    "cellToVertex(h,i), vertexToLatLng(slot i) within 1e-12 rad of the i-th topological corner of cellToBoundary (corners = boundary "
    "vertices coinciding with vertices of two geometric neighbours); both other cells at each corner list the identical index; the "
    "corner named through a non-owner cell (cell, its own vertex number) is rejected by isValidVertex; each neighbour shares exactly 2 "
    "indexes, cells 2..3 steps away share < 2; vertex numbers outside the range give E_DOMAIN. count(r): a complete resolution with N "
    "cells has exactly 2N-4 distinct indexes. cand(x): all modes x vertex numbers 0..7 x high bit: isValidVertex iff mode 4, high 0, "
    "valid owner, and the index is one the owner's cellToVertexes returns. Non-trivial: pentagon, pentagon neighbour, cell with "
    "distortion vertices, accepted candidate.";
const char *MC_ASSUME[] = {"G_geo and topological corners from src/geo.h (judged by C08)", NULL};
const char *MC_CTR_NAMES[] = {"oracle_unavailable", "corners_checked", "noncanonical_names_rejected", "candidates", "candidates_valid", NULL};
const char *MC_MAX_NAMES[] = {"vertex_to_corner_gap_rad", NULL};
#define CANARY 0xC0FFEE0DDEADBEEFull

static uint64_t *g_all;   // shared: 6 slots per dense cell id (complete resolution run)
static int64_t g_alln;
static int64_t g_allbase;  // dense id offset is per resolution: we store by spec_cell_id within current res
static int g_collect;

static int get_vs(uint64_t c, uint64_t *vs) {
    uint64_t b[8];
    for (int i = 0; i < 8; i++) b[i] = CANARY;
    mc_trans(1);
    if (cellToVertexes(c, b + 1)) return -1;
    if (b[0] != CANARY || b[7] != CANARY) return -2;
    memcpy(vs, b + 1, 48);
    return 0;
}
static OGraph G;
static int G_init;
static void op_cell(const McArg *a) {
    uint64_t h = a[0].u;
    CellGeom g;
    int pent = spec_is_pentagon(h), nc = pent ? 5 : 6;
    if (cellgeom(h, &g, 1e-12) < 0 || g.nn != nc) {
        mc_ctr(0, 1);
        return;
    }
    int nv = g.cb.numVerts, tc[10], ntc = 0;
    for (int i = 0; i < nv; i++)
        if (g.topo[i] == 2) tc[ntc++] = i;
    if (ntc != nc) {
        mc_ctr(0, 1);
        return;
    }
    if (pent || nv > nc) mc_nontrivial();
    uint64_t vs[6], nvs[8][6];
    int r = get_vs(h, vs);
    MC_CHECK(r == 0, "cellToVertexes(%" PRIx64 ") %s", h, r == -1 ? "failed" : "wrote outside 6 slots");
    for (int k = 0; k < g.nn; k++) {
        if (spec_is_pentagon(g.nb[k])) mc_nontrivial();
        MC_CHECK(get_vs(g.nb[k], nvs[k]) == 0, "cellToVertexes(%" PRIx64 ") failed", g.nb[k]);
    }
    if (pent) MC_CHECK(vs[5] == 0, "cellToVertexes(pentagon %" PRIx64 ") slot 5 = %" PRIx64 ", expected null", h, vs[5]);
    for (int i = 0; i < nc; i++) {
        uint64_t v = vs[i], v2 = CANARY;
        mc_ctr(1, 1);
        mc_trans(3);
        MC_CHECK(v != 0, "cellToVertexes(%" PRIx64 ") slot %d is null", h, i);
        for (int j = 0; j < i; j++) MC_CHECK(vs[j] != v, "cellToVertexes(%" PRIx64 ") slots %d and %d are both %" PRIx64, h, j, i, v);
        MC_CHECK(spec_mode(v) == 4 && !spec_high(v), "vertex index %" PRIx64 " of %" PRIx64 " is not mode 4", v, h);
        MC_CHECK(isValidVertex(v), "isValidVertex rejects %" PRIx64 " = vertex %d of %" PRIx64, v, i, h);
        MC_CHECK(cellToVertex(h, i, &v2) == 0 && v2 == v, "cellToVertex(%" PRIx64 ",%d) = %" PRIx64 " but cellToVertexes slot is %" PRIx64, h, i, v2, v);
        LatLng p;
        MC_CHECK(vertexToLatLng(v, &p) == 0, "vertexToLatLng(%" PRIx64 ") failed", v);
        double d = adist(p, g.cb.verts[tc[i]]);
        mc_max(0, d);
        MC_CHECK(d <= 1e-12, "vertexToLatLng(%" PRIx64 ") (vertex %d of %" PRIx64 ") is %.3g rad from the %d-th topological corner of its boundary", v, i, h, d, i);
        uint64_t owner = (v & ~((uint64_t)15 << 59) & ~((uint64_t)7 << 56)) | ((uint64_t)1 << 59);
        int ownerfound = owner == h, sharers = 0;
        for (int k = 0; k < g.nn; k++) {
            if (g.match[k][tc[i]] < 0) continue;
            sharers++;
            int m = -1;
            for (int j = 0; j < 6; j++)
                if (nvs[k][j] == v) m = j;
            MC_CHECK(m >= 0, "corner %d of %" PRIx64 " has index %" PRIx64 " but neighbour %" PRIx64 ", which shares that corner, does not list it", i, h, v, g.nb[k]);
            if (owner == g.nb[k])
                ownerfound++;
            else {
                uint64_t alias = (g.nb[k] & ~((uint64_t)15 << 59)) | ((uint64_t)4 << 59) | ((uint64_t)m << 56);
                mc_ctr(2, 1);
                MC_CHECK(!isValidVertex(alias), "isValidVertex accepts %" PRIx64 ", the corner %" PRIx64 " named through non-owner cell %" PRIx64, alias, v, g.nb[k]);
            }
        }
        MC_CHECK(sharers == 2 && ownerfound == 1, "corner %" PRIx64 ": %d sharing neighbours, owner among the three cells %d times", v, sharers, ownerfound);
        if (owner != h) {
            uint64_t alias = (h & ~((uint64_t)15 << 59)) | ((uint64_t)4 << 59) | ((uint64_t)i << 56);
            mc_ctr(2, 1);
            MC_CHECK(!isValidVertex(alias), "isValidVertex accepts %" PRIx64 ", the corner %" PRIx64 " named through non-owner cell %" PRIx64, alias, v, h);
        }
    }
    for (int k = 0; k < g.nn; k++) {
        int sh = 0;
        for (int i = 0; i < nc; i++)
            for (int j = 0; j < 6; j++) sh += nvs[k][j] && nvs[k][j] == vs[i];
        MC_CHECK(sh == 2, "neighbours %" PRIx64 " and %" PRIx64 " share %d vertex indexes", h, g.nb[k], sh);
    }
    // cells 2..3 steps away
    static uint64_t bc[64];
    static int bd[64];
    if (!G_init) og_init(&G, 1 << 16), G_init = 1;
    if (G.n > 2000000) og_clear(&G);
    int n = og_ball(&G, h, 2, bc, bd, 64);
    for (int b = 0; b < n; b++) {
        if (bd[b] < 2) continue;
        uint64_t ovs[6];
        MC_CHECK(get_vs(bc[b], ovs) == 0, "cellToVertexes(%" PRIx64 ") failed", bc[b]);
        int sh = 0;
        for (int i = 0; i < nc; i++)
            for (int j = 0; j < 6; j++) sh += ovs[j] && ovs[j] == vs[i];
        MC_CHECK(sh < 2, "cells %" PRIx64 " and %" PRIx64 " are %d steps apart but share %d vertex indexes", h, bc[b], bd[b], sh);
    }
    for (int k = 0; k < DOM_NINTS + 4; k++) {
        int vn = k < DOM_NINTS ? (int)DOM_INTS[k] : 4 + (k - DOM_NINTS);
        if (vn >= 0 && vn < nc) continue;
        uint64_t o = CANARY;
        H3Error e = cellToVertex(h, vn, &o);
        MC_CHECK(e == E_DOMAIN, "cellToVertex(%" PRIx64 ",%d) returned %d (out %" PRIx64 "), expected E_DOMAIN", h, vn, e, o);
    }
    if (g_collect) {
        int64_t id = spec_cell_id(h);
        for (int i = 0; i < 6; i++) g_all[id * 6 + i] = vs[i];
    }
}
static void op_count(const McArg *a) {
    int r = (int)a[0].i;
    int64_t N = spec_numcells(r);
    mc_nontrivial();
    U64Vec v = {0};
    for (int64_t i = 0; i < N * 6; i++)
        if (g_all[i]) uv_push(&v, g_all[i]);
    uv_sortuniq(&v);
    MC_CHECK((int64_t)v.n == 2 * N - 4, "resolution %d: %zu distinct vertex indexes, expected 2N-4 = %" PRId64, r, v.n, 2 * N - 4);
    uv_free(&v);
}
static void op_cand(const McArg *a) {
    uint64_t x = a[0].u & ~((uint64_t)0xff << 56);
    uint64_t cell = x | ((uint64_t)1 << 59);
    int cv = spec_valid(cell);
    uint64_t vs[6] = {0};
    if (cv && get_vs(cell, vs)) cv = 0;
    for (int hi = 0; hi < 2; hi++)
        for (int m = 0; m < 16; m++)
            for (int rv = 0; rv < 8; rv++) {
                uint64_t v = x | ((uint64_t)hi << 63) | ((uint64_t)m << 59) | ((uint64_t)rv << 56);
                int want = 0;
                if (!hi && m == 4 && cv)
                    for (int j = 0; j < 6; j++) want |= vs[j] == v;
                mc_trans(1);
                mc_ctr(3, 1);
                if (want) mc_ctr(4, 1), mc_nontrivial();
                int got = isValidVertex(v) ? 1 : 0;
                MC_CHECK(got == want, "isValidVertex(%" PRIx64 ") = %d, expected %d (mode %d, vertex number %d, owner %s)", v, got, want, m, rv, cv ? "valid" : "invalid");
            }
}
enum { OP_CELL, OP_COUNT, OP_CAND };
const McOp MC_OPS[] = {{"cell", "h", op_cell}, {"count", "i", op_count}, {"cand", "h", op_cand}};
const int MC_NOPS = 3;

static U64Vec g_dom, g_cand;
static int g_res;
static void ph_full(void *u) {
    int64_t N = spec_numcells(g_res);
    int64_t lo = N * mc_wid / mc_nw, hi = N * (mc_wid + 1) / mc_nw;
    for (int64_t i = lo; i < hi; i++) {
        if (mc_tick(63)) return;
        mc_states(1);
        MC_RUN(OP_CELL, H(spec_cell_at(g_res, i)));
    }
}
static void ph_count(void *u) {
    if (mc_wid == 0) MC_RUN(OP_COUNT, I(g_res));
}
static void ph_cells(void *u) {
    size_t lo = g_dom.n * mc_wid / mc_nw, hi = g_dom.n * (mc_wid + 1) / mc_nw;
    for (size_t i = lo; i < hi; i++) {
        if (mc_tick(63)) return;
        mc_states(1);
        MC_RUN(OP_CELL, H(g_dom.v[i]));
    }
}
static void ph_cand(void *u) {
    for (size_t i = 0; i < g_cand.n; i++) {
        if (!mc_mine(i)) continue;
        if (mc_tick(1023)) return;
        MC_RUN(OP_CAND, H(g_cand.v[i]));
    }
}
int main(int argc, char **argv) {
    mc_init(argc, argv);
    int fullmax = mc_thorough ? 5 : 4;
    snprintf(mc_bounds, sizeof mc_bounds, "FULL(0..%d) with the 2N-4 count; FINE level %d + EDGE(%d) at resolutions %d..15; candidates: FULL(0..2) and IDX(%s) x 256 header values",
             fullmax, mc_thorough ? 0 : 1, mc_thorough ? 4000 : 600, fullmax + 1, mc_thorough ? "large" : "small");
    g_all = mc_shalloc(spec_numcells(fullmax) * 6 * 8);
    for (int r = 0; r <= 2; r++) dom_full(r, &g_cand);
    dom_idx(mc_thorough, &g_cand);
    // owners that are NOT cells although every field looks plausible: the deleted sub-sequence of every pentagon base cell (first non-zero
    // digit 1) at resolutions 1..6, followed by centre digits or by a varied tail; base cells 122..127; a digit 7 inside the resolution
    for (int b = 0; b < 12; b++)
        for (int r = 1; r <= 6; r++)
            for (int pos = 0; pos < r; pos++)
                for (int tail = 0; tail < 3; tail++) {
                    int d[15] = {0};
                    d[pos] = 1;
                    for (int q = pos + 1; q < r; q++) d[q] = tail == 0 ? 0 : tail == 1 ? 3 : (q & 1 ? 6 : 2);
                    uv_push(&g_cand, spec_mk(r, SPEC_PENT_BC[b], d));
                }
    for (int bc = 122; bc < 128; bc++)
        for (int r = 0; r <= 3; r++) {
            int d[15] = {0};
            uv_push(&g_cand, spec_mk(r, bc, d));
        }
    for (size_t i = 0; i < g_cand.n; i++) {
        uint64_t c = (g_cand.v[i] & ~((uint64_t)0xff << 56)) | ((uint64_t)1 << 59);
        if (spec_valid(c) && spec_res(c) > 2) uv_push(&g_dom, c);
        g_cand.v[i] &= ~((uint64_t)0xff << 56);
    }
    uv_sortuniq(&g_cand);
    uv_sortuniq(&g_dom);
    mc_phase("candidate vertex indexes", ph_cand, NULL);
    mc_phase("owner cells of candidates", ph_cells, NULL);
    g_collect = 1;
    for (g_res = 0; g_res <= fullmax; g_res++) {
        char nm[64];
        snprintf(nm, sizeof nm, "FULL(%d)", g_res);
        memset(g_all, 0, spec_numcells(g_res) * 6 * 8);
        mc_phase(nm, ph_full, NULL);
        if (mc_phases[mc_nphases - 1].complete && !mc_workers[0].ctr[0]) mc_phase("2N-4 count", ph_count, NULL);
    }
    g_collect = 0;
    g_dom.n = 0;
    for (int r = fullmax + 1; r <= 15; r++) {
        dom_fine_raw(r, mc_thorough ? 0 : 1, &g_dom);
        dom_edge(r, mc_thorough ? 4000 : 600, 1, &g_dom);
    }
    uv_sortuniq(&g_dom);
    mc_phase("fine families", ph_cells, NULL);
    return mc_finish();
}
