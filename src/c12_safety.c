// BUILD: variant=san
// C12 -- every API call is memory-safe and total on arbitrary arguments (ASan + UBSan, internal assertions live).
#include "mc.h"
#include "dom.h"
#include "poly.h"

const char *MC_PROPERTY = "C12";
const char *MC_RULE =
    "Library and harness are built with clang -fsanitize=address,undefined (no recovery) and without NDEBUG, so NEVER()/ALWAYS()/assert "
    "abort; every worker death inside a case is a violation keyed by that case. un(x): every exported function taking one index, called "
    "with x and with every value of INTS (resolutions, k, positions, vertex numbers), output buffers malloc'd at exactly the documented "
    "size; bin(a,b): every two-index function; dbl(lat,lng,res,..): every function taking doubles over DBLS; ints(r): every function of a "
    "resolution/k only; str: covered by C20 under the same build; polyagg(kind,res,flags): malformed polygons (0-3 vertices, NaN/Inf, "
    "duplicates, hole outside, self-intersection, NULL holes with numHoles=0, vertex-less holes); setagg(kind,res): malformed cell sets "
    "(duplicates, zeros, mixed resolutions, non-cells) for compact/uncompact/gridDisksUnsafe/cellsToLinkedMultiPolygon; seq: explicit-state "
    "BFS over the API: outputs of un(x) are canonicalised by (mode, resolution, reserved, base-cell class, digit class, validity) and each "
    "new class representative is fed back into un and bin. Oracle: no sanitizer report, no assertion, no signal, return code <= 15, and "
    "for out-of-domain scalars the documented code (exact when the index is valid, non-success otherwise). Non-trivial: a case in which "
    "at least one call returned an error code and at least one succeeded.";
const char *MC_ASSUME[] = {"sanitizers decide memory safety; argument values outside the alphabets are not explored; calls needing more than 2^22 output cells are skipped", NULL};
const char *MC_CTR_NAMES[] = {"api_calls", "calls_returning_error", "calls_succeeding", "documented_code_checks", "skipped_too_large", "seq_new_classes", NULL};
const char *MC_MAX_NAMES[] = {NULL};
#define CANARY 0xC0FFEE0DDEADBEEFull
enum { OP_UN, OP_BIN, OP_DBL, OP_INTS, OP_POLYAGG, OP_SETAGG, OP_DBLPOLY, OP_POLYCAP };

static uint64_t nerr_, nok_;
static inline H3Error R(H3Error e, const char *fn) {
    mc_ctr(0, 1);
    if (e)
        nerr_++;
    else
        nok_++;
    if (e > 15) mc_fail("%s returned undocumented code %u", fn, e);
    return e;
}
#define CALL(expr, fn) R((expr), fn)
static void want(H3Error e, H3Error code, int exact, const char *what) {
    mc_ctr(3, 1);
    if (exact ? e != code : e == 0) mc_fail("%s returned %u, expected %s%u", what, e, exact ? "" : "an error such as ", code);
}
// output sink for the sequence BFS
static U64Vec *sink;
static void emit(uint64_t x) {
    if (sink && x) uv_push(sink, x);
}
static void un_core(uint64_t h) {
    LatLng g = {0, 0};
    CellBoundary cb;
    double dd;
    int64_t i64;
    int fc = 0;
    uint64_t o = 0;
    int valid = spec_valid(h);
    char what[128];
    CALL(cellToLatLng(h, &g), "cellToLatLng");
    CALL(cellToBoundary(h, &cb), "cellToBoundary");
    CALL(cellAreaRads2(h, &dd), "cellAreaRads2");
    CALL(cellAreaKm2(h, &dd), "cellAreaKm2");
    CALL(cellAreaM2(h, &dd), "cellAreaM2");
    CALL(edgeLengthRads(h, &dd), "edgeLengthRads");
    CALL(edgeLengthKm(h, &dd), "edgeLengthKm");
    CALL(edgeLengthM(h, &dd), "edgeLengthM");
    int v1 = isValidCell(h), v2 = isValidDirectedEdge(h), v3 = isValidVertex(h), v4 = isPentagon(h), v5 = isResClassIII(h), v6 = getResolution(h), v7 = getBaseCellNumber(h);
    mc_ctr(0, 7);
    if ((v1 | v2 | v3 | v4 | v5) & ~1) mc_fail("a predicate returned a value other than 0/1 for %" PRIx64, h);
    if (v6 < 0 || v6 > 15 || v7 < 0 || v7 > 127) mc_fail("getResolution/getBaseCellNumber(%" PRIx64 ") = %d/%d", h, v6, v7);
    if (CALL(maxFaceCount(h, &fc), "maxFaceCount") == 0 && fc > 0 && fc <= 5) {
        int *f = malloc(fc * sizeof(int));
        CALL(getIcosahedronFaces(h, f), "getIcosahedronFaces");
        free(f);
    }
    if (CALL(getDirectedEdgeOrigin(h, &o), "getDirectedEdgeOrigin") == 0) emit(o);
    if (CALL(getDirectedEdgeDestination(h, &o), "getDirectedEdgeDestination") == 0) emit(o);
    {
        uint64_t *od = malloc(16);
        if (CALL(directedEdgeToCells(h, od), "directedEdgeToCells") == 0) emit(od[0]), emit(od[1]);
        free(od);
    }
    {
        uint64_t *ed = malloc(48);
        if (CALL(originToDirectedEdges(h, ed), "originToDirectedEdges") == 0)
            for (int i = 0; i < 6; i++) emit(ed[i]);
        free(ed);
    }
    CALL(directedEdgeToBoundary(h, &cb), "directedEdgeToBoundary");
    {
        uint64_t *v = malloc(48);
        if (CALL(cellToVertexes(h, v), "cellToVertexes") == 0)
            for (int i = 0; i < 6; i++) emit(v[i]);
        free(v);
    }
    CALL(vertexToLatLng(h, &g), "vertexToLatLng");
    {
        char *s = malloc(17);
        CALL(h3ToString(h, s, 17), "h3ToString");
        free(s);
        char *s2 = malloc(16);
        want(CALL(h3ToString(h, s2, 16), "h3ToString"), E_MEMORY_BOUNDS, 1, "h3ToString(sz=16)");
        free(s2);
    }
    int res = spec_res(h);
    for (int ii = 0; ii < DOM_NINTS + 3; ii++) {
        int r = ii < DOM_NINTS ? (int)DOM_INTS[ii] : ii == DOM_NINTS ? res : ii == DOM_NINTS + 1 ? res + 1 : res - 1;
        int rbad = r < 0 || r > 15;
        H3Error e;
        e = CALL(cellToParent(h, r, &o), "cellToParent");
        if (!e) emit(o);
        snprintf(what, sizeof what, "cellToParent(%" PRIx64 ",%d)", h, r);
        if (rbad) want(e, E_RES_DOMAIN, 1, what);
        else if (r > res) want(e, E_RES_MISMATCH, 1, what);
        e = CALL(cellToCenterChild(h, r, &o), "cellToCenterChild");
        if (!e) emit(o);
        snprintf(what, sizeof what, "cellToCenterChild(%" PRIx64 ",%d)", h, r);
        if (rbad || r < res) want(e, E_RES_DOMAIN, 1, what);
        e = CALL(cellToChildPos(h, r, &i64), "cellToChildPos");
        snprintf(what, sizeof what, "cellToChildPos(%" PRIx64 ",%d)", h, r);
        if (rbad) want(e, E_RES_DOMAIN, 1, what);
        else if (r > res) want(e, E_RES_MISMATCH, 1, what);
        e = CALL(cellToVertex(h, r, &o), "cellToVertex");
        if (!e) emit(o);
        snprintf(what, sizeof what, "cellToVertex(%" PRIx64 ",%d)", h, r);
        if (r < 0 || r > 5) want(e, E_DOMAIN, 1, what);
        e = CALL(cellToChildrenSize(h, r, &i64), "cellToChildrenSize");
        snprintf(what, sizeof what, "cellToChildrenSize(%" PRIx64 ",%d)", h, r);
        if (rbad || r < res) want(e, E_RES_DOMAIN, 1, what);
        if (!e && i64 >= 0 && i64 <= 2401) {
            uint64_t *ch = malloc((i64 ? i64 : 1) * 8);
            if (CALL(cellToChildren(h, r, ch), "cellToChildren") == 0 && i64) emit(ch[0]), emit(ch[i64 - 1]);
            free(ch);
        } else if (!e)
            mc_ctr(4, 1);
        for (int jj = 0; jj < DOM_NINTS; jj++) {
            int64_t pos = DOM_INTS[jj];
            e = CALL(childPosToCell(pos, h, r, &o), "childPosToCell");
            if (!e) emit(o);
            snprintf(what, sizeof what, "childPosToCell(%" PRId64 ",%" PRIx64 ",%d)", pos, h, r);
            if (rbad) want(e, E_RES_DOMAIN, 1, what);
            else if (r < res) want(e, E_RES_MISMATCH, 1, what);
            else if (pos < 0) want(e, E_DOMAIN, 1, what);
            CALL(childPosToCell(pos * 1048576 + 1, h, r, &o), "childPosToCell");
        }
        // positions at and just beyond the announced child count: E_DOMAIN is documented for every position outside 0..size-1
        if (valid && !rbad && r >= res && !CALL(cellToChildrenSize(h, r, &i64), "cellToChildrenSize")) {
            int64_t size = i64, full = 1;
            for (int q = res; q < r; q++) full *= 7;
            int64_t ps[] = {size, size + 1, (size + full) / 2, full - 1, full, full + 1, -1};
            for (unsigned q = 0; q < sizeof ps / sizeof *ps; q++) {
                if (ps[q] >= 0 && ps[q] < size) continue;
                e = CALL(childPosToCell(ps[q], h, r, &o), "childPosToCell");
                snprintf(what, sizeof what, "childPosToCell(%" PRId64 ",%" PRIx64 ",%d) [child count %" PRId64 "]", ps[q], h, r, size);
                want(e, E_DOMAIN, 1, what);
            }
            if (size > 0) {
                e = CALL(childPosToCell(size - 1, h, r, &o), "childPosToCell");
                if (e) mc_fail("childPosToCell(%" PRId64 ",%" PRIx64 ",%d) (last valid position) returned %u", size - 1, h, r, e);
            }
        }
        // r as k
        int64_t sz = -1;
        e = CALL(maxGridDiskSize(r, &sz), "maxGridDiskSize");
        if (r < 0) want(e, E_DOMAIN, 1, "maxGridDiskSize(k<0)");
        if (!e && sz > 0 && sz <= 4000) {
            uint64_t *out = calloc(sz, 8);
            int *ds = calloc(sz, sizeof(int));
            // the safe (recursive) algorithm is exponential-ish in k: full family for k <= 4, beyond that the unsafe walkers only
            if (r <= 4 && CALL(gridDisk(h, r, out), "gridDisk") == 0) emit(out[sz - 1]), emit(out[sz / 2]);
            memset(out, 0, sz * 8);
            if (r <= 4) CALL(gridDiskDistances(h, r, out, ds), "gridDiskDistances");
            memset(out, 0, sz * 8), memset(ds, 0, sz * sizeof(int));
            if (r <= 4) CALL(gridDiskDistancesSafe(h, r, out, ds), "gridDiskDistancesSafe");
            memset(out, 0, sz * 8), memset(ds, 0, sz * sizeof(int));
            CALL(gridDiskUnsafe(h, r, out), "gridDiskUnsafe");
            memset(out, 0, sz * 8), memset(ds, 0, sz * sizeof(int));
            CALL(gridDiskDistancesUnsafe(h, r, out, ds), "gridDiskDistancesUnsafe");
            free(out), free(ds);
            uint64_t *ring = calloc(r ? 6 * r : 1, 8);
            if (CALL(gridRingUnsafe(h, r, ring), "gridRingUnsafe") == 0) emit(ring[0]);
            free(ring);
            uint64_t *two = malloc(16), *outs = calloc(2 * sz, 8);
            two[0] = h, two[1] = h;
            CALL(gridDisksUnsafe(two, 2, r, outs), "gridDisksUnsafe");
            free(two), free(outs);
        } else if (r < 0) {
            uint64_t *out = malloc(8);
            int *ds = malloc(sizeof(int));
            out[0] = 0, ds[0] = 0;
            want(CALL(gridDisk(h, r, out), "gridDisk"), E_DOMAIN, 0, "gridDisk(k<0)");
            want(CALL(gridDiskDistances(h, r, out, ds), "gridDiskDistances"), E_DOMAIN, 0, "gridDiskDistances(k<0)");
            want(CALL(gridDiskDistancesSafe(h, r, out, ds), "gridDiskDistancesSafe"), E_DOMAIN, 0, "gridDiskDistancesSafe(k<0)");
            want(CALL(gridDiskUnsafe(h, r, out), "gridDiskUnsafe"), E_DOMAIN, 0, "gridDiskUnsafe(k<0)");
            want(CALL(gridDiskDistancesUnsafe(h, r, out, ds), "gridDiskDistancesUnsafe"), E_DOMAIN, 0, "gridDiskDistancesUnsafe(k<0)");
            free(out), free(ds);
        } else
            mc_ctr(4, 1);
    }
    static const int IJ[] = {INT_MIN, INT_MIN + 1, -1000000, -1, 0, 1, 7, 1000000, INT_MAX / 3, INT_MAX - 1, INT_MAX};
    for (unsigned a = 0; a < 11; a++)
        for (unsigned b = 0; b < 11; b++) {
            CoordIJ ij = {IJ[a], IJ[b]};
            if (CALL(localIjToCell(h, &ij, 0, &o), "localIjToCell") == 0 && a >= 3 && a <= 6 && b >= 3 && b <= 6) emit(o);
            if (a < 2 && b < 2) want(CALL(localIjToCell(h, &ij, 1u << (a + 4 * b), &o), "localIjToCell"), E_OPTION_INVALID, 1, "localIjToCell(mode != 0)");
        }
    // single-cell aggregates
    {
        uint64_t *in = malloc(8), *outc = calloc(1, 8);
        in[0] = h;
        CALL(compactCells(in, outc, 1), "compactCells");
        for (int r = 0; r <= 15; r += 5) {
            if (CALL(uncompactCellsSize(in, 1, r, &i64), "uncompactCellsSize") == 0 && i64 >= 0 && i64 <= 2401) {
                uint64_t *u = calloc(i64 ? i64 : 1, 8);
                CALL(uncompactCells(in, 1, u, i64, r), "uncompactCells");
                if (i64 > 0 && valid) want(CALL(uncompactCells(in, 1, u, i64 - 1, r), "uncompactCells"), E_MEMORY_BOUNDS, 1, "uncompactCells(capacity-1)");
                free(u);
            }
        }
        LinkedGeoPolygon lp;
        if (CALL(cellsToLinkedMultiPolygon(in, 1, &lp), "cellsToLinkedMultiPolygon") == 0) destroyLinkedMultiPolygon(&lp);
        free(in), free(outc);
    }
    (void)valid;
}
static void flush(void) {
    mc_ctr(1, nerr_);
    mc_ctr(2, nok_);
    mc_trans(nerr_ + nok_);
    if (nerr_ && nok_) mc_nontrivial();
    nerr_ = nok_ = 0;
}
static void op_un(const McArg *a) {
    un_core(a[0].u);
    flush();
}
static void bin_core(uint64_t a, uint64_t b, int agg) {
    int64_t d;
    int nb;
    uint64_t e;
    CoordIJ ij;
    int bothvalid = spec_valid(a) && spec_valid(b);
    H3Error r = CALL(gridDistance(a, b, &d), "gridDistance");
    if (bothvalid && spec_res(a) != spec_res(b)) want(r, E_RES_MISMATCH, 1, "gridDistance(differing resolutions)");
    r = CALL(areNeighborCells(a, b, &nb), "areNeighborCells");
    if (bothvalid && spec_res(a) != spec_res(b)) want(r, E_RES_MISMATCH, 1, "areNeighborCells(differing resolutions)");
    if (CALL(cellsToDirectedEdge(a, b, &e), "cellsToDirectedEdge") == 0) emit(e);
    CALL(cellToLocalIj(a, b, 0, &ij), "cellToLocalIj");
    want(CALL(cellToLocalIj(a, b, 7, &ij), "cellToLocalIj"), E_OPTION_INVALID, 1, "cellToLocalIj(mode 7)");
    int64_t sz;
    if (CALL(gridPathCellsSize(a, b, &sz), "gridPathCellsSize") == 0 && sz > 0 && sz < 1500) {
        uint64_t *p = malloc(sz * 8);
        if (CALL(gridPathCells(a, b, p), "gridPathCells") == 0 && sz > 2) emit(p[sz / 2]);
        free(p);
    }
    if (!agg) return;
    uint64_t *two = malloc(16), *outc = calloc(2, 8);
    two[0] = a, two[1] = b;
    CALL(compactCells(two, outc, 2), "compactCells");
    LinkedGeoPolygon lp;
    if (CALL(cellsToLinkedMultiPolygon(two, 2, &lp), "cellsToLinkedMultiPolygon") == 0) destroyLinkedMultiPolygon(&lp);
    free(two), free(outc);
}
static void op_bin(const McArg *a) {
    bin_core(a[0].u, a[1].u, (int)a[2].i);
    flush();
}
static void op_dbl(const McArg *a) {
    LatLng p = {a[0].d, a[1].d}, q = {a[2].d, a[3].d};
    for (int k = 0; k < DOM_NINTS + 2; k++) {
        int res = k < DOM_NINTS ? (int)DOM_INTS[k] : k == DOM_NINTS ? 7 : 10;
        uint64_t h = 0;
        H3Error e = CALL(latLngToCell(&p, res, &h), "latLngToCell");
        if (res < 0 || res > 15) {
            if (isfinite(p.lat) && isfinite(p.lng)) want(e, E_RES_DOMAIN, 1, "latLngToCell(res out of range)");
            else want(e, E_RES_DOMAIN, 0, "latLngToCell(res out of range, non-finite)");
        } else if (!isfinite(p.lat) || !isfinite(p.lng))
            want(e, E_LATLNG_DOMAIN, 1, "latLngToCell(non-finite)");
        else if (e)
            mc_fail("latLngToCell((%g,%g),%d) returned %u for finite coordinates", p.lat, p.lng, res, e);
        if (!e && (!spec_valid(h) || spec_res(h) != res)) mc_fail("latLngToCell((%g,%g),%d) = %" PRIx64, p.lat, p.lng, res, h);
    }
    double d1 = greatCircleDistanceRads(&p, &q), d2 = greatCircleDistanceKm(&p, &q), d3 = greatCircleDistanceM(&p, &q);
    double d4 = degsToRads(p.lat), d5 = radsToDegs(p.lng);
    (void)d1, (void)d2, (void)d3, (void)d4, (void)d5;
    mc_ctr(0, 5);
    flush();
}
// polygon made of two special points and a third: degenerate / special coordinates
static void op_dblpoly(const McArg *a) {
    LatLng p = {a[0].d, a[1].d}, q = {a[2].d, a[3].d};
    LatLng v[3] = {p, q, {p.lng, q.lat}};
    GeoPolygon gp = {{3, v}, 0, NULL};
    for (int res = 0; res <= 2; res += 2) {
        int64_t sz;
        if (CALL(maxPolygonToCellsSize(&gp, res, 0, &sz), "maxPolygonToCellsSize") == 0 && sz >= 0 && sz < 20000) {
            uint64_t *out = calloc(sz ? sz : 1, 8);
            CALL(polygonToCells(&gp, res, 0, out), "polygonToCells");
            free(out);
        }
        for (uint32_t fl = 0; fl < 4; fl += 2)
            if (CALL(maxPolygonToCellsSizeExperimental(&gp, res, fl, &sz), "maxPolygonToCellsSizeExperimental") == 0 && sz >= 0 && sz < 20000) {
                uint64_t *out = calloc(sz ? sz : 1, 8);
                CALL(polygonToCellsExperimental(&gp, res, fl, sz, out), "polygonToCellsExperimental");
                free(out);
            }
    }
    flush();
}
// polycap(shape, anchor, scale, res): well-formed catalogue polygon, every containment mode, with output buffers SMALLER than the result
// (malloc'd at exactly the capacity passed, so ASan sees the first cell written beyond it): E_MEMORY_BOUNDS is the documented answer
static void op_polycap(const McArg *a) {
    static Poly p;
    if (poly_build((int)a[0].i, (int)a[1].i, (int)a[2].i, (int)a[3].i, &p)) return;
    for (uint32_t fl = 0; fl < 4; fl++) {
        int64_t sz = -1, cnt = 0;
        if (CALL(maxPolygonToCellsSizeExperimental(&p.gp, p.res, fl, &sz), "maxPolygonToCellsSizeExperimental") || sz <= 0 || sz > 50000) continue;
        uint64_t *full = calloc(sz, 8);
        if (CALL(polygonToCellsExperimental(&p.gp, p.res, fl, sz, full), "polygonToCellsExperimental") == 0)
            for (int64_t i = 0; i < sz; i++) cnt += full[i] != 0;
        free(full);
        if (cnt < 2) continue;
        int64_t caps[] = {0, 1, 2, cnt / 7, cnt / 3, cnt / 2, cnt - 8, cnt - 2, cnt - 1};
        for (unsigned q = 0; q < sizeof caps / sizeof *caps; q++) {
            int64_t cap = caps[q];
            if (cap < 0 || cap >= cnt) continue;
            uint64_t *out = malloc(cap ? cap * 8 : 1);
            memset(out, 0, cap * 8);
            char what[128];
            snprintf(what, sizeof what, "polygonToCellsExperimental(capacity %" PRId64 " < %" PRId64 " cells, mode %u)", cap, cnt, fl);
            want(CALL(polygonToCellsExperimental(&p.gp, p.res, fl, cap, out), "polygonToCellsExperimental"), E_MEMORY_BOUNDS, 1, what);
            free(out);
        }
    }
    flush();
}
static void op_ints(const McArg *a) {
    int r = (int)a[0].i, bad = r < 0 || r > 15;
    double d;
    int64_t n;
    want(CALL(getHexagonAreaAvgKm2(r, &d), "getHexagonAreaAvgKm2"), bad ? E_RES_DOMAIN : 0, 1, "getHexagonAreaAvgKm2");
    want(CALL(getHexagonAreaAvgM2(r, &d), "getHexagonAreaAvgM2"), bad ? E_RES_DOMAIN : 0, 1, "getHexagonAreaAvgM2");
    want(CALL(getHexagonEdgeLengthAvgKm(r, &d), "getHexagonEdgeLengthAvgKm"), bad ? E_RES_DOMAIN : 0, 1, "getHexagonEdgeLengthAvgKm");
    want(CALL(getHexagonEdgeLengthAvgM(r, &d), "getHexagonEdgeLengthAvgM"), bad ? E_RES_DOMAIN : 0, 1, "getHexagonEdgeLengthAvgM");
    want(CALL(getNumCells(r, &n), "getNumCells"), bad ? E_RES_DOMAIN : 0, 1, "getNumCells");
    uint64_t *p = malloc(12 * 8);
    want(CALL(getPentagons(r, p), "getPentagons"), bad ? E_RES_DOMAIN : 0, 1, "getPentagons");
    free(p);
    uint64_t *b = malloc(122 * 8);
    CALL(getRes0Cells(b), "getRes0Cells");
    free(b);
    const char *s = describeH3Error((H3Error)r);
    if (!s || !*s) mc_fail("describeH3Error(%d) returned an empty string", r);
    if (res0CellCount() != 122 || pentagonCount() != 12) mc_fail("res0CellCount/pentagonCount");
    mc_ctr(0, 3);
    mc_nontrivial();
    flush();
}
// malformed polygons
static void op_polyagg(const McArg *a) {
    int kind = (int)a[0].i, res = (int)a[1].i;
    uint32_t flags = (uint32_t)a[2].i;
    LatLng *v = malloc(8 * sizeof(LatLng)), *hv = malloc(48 * sizeof(LatLng));
    int ringhole = 0;
    GeoLoop *holes = malloc(48 * sizeof(GeoLoop));
    GeoPolygon gp;
    memset(&gp, 0, sizeof gp);
    double u = poly_edge(res) * 2;
    LatLng c = {0.71, -1.93};
    LatLng sq[4] = {{c.lat - u, c.lng - u}, {c.lat - u, c.lng + u}, {c.lat + u, c.lng + u}, {c.lat + u, c.lng - u}};
    memcpy(v, sq, sizeof sq);
    gp.geoloop.verts = v;
    gp.geoloop.numVerts = 4;
    switch (kind) {
        case 0: gp.geoloop.numVerts = 0; break;
        case 1: gp.geoloop.numVerts = 1; break;
        case 2: gp.geoloop.numVerts = 2; break;
        case 3: gp.geoloop.numVerts = 3; break;
        case 4: v[1].lat = NAN; break;
        case 5: v[2].lng = INFINITY; break;
        case 6: v[1] = v[0], v[2] = v[0]; break;
        case 7: {  // self-intersecting bow tie
            LatLng t = v[1];
            v[1] = v[2], v[2] = t;
            break;
        }
        case 8:  // hole outside the shell
            for (int i = 0; i < 4; i++) hv[i] = (LatLng){sq[3 - i].lat + 5 * u, sq[3 - i].lng};
            holes[0].numVerts = 4, holes[0].verts = hv, gp.numHoles = 1, gp.holes = holes;
            break;
        case 9:  // vertex-less hole
            holes[0].numVerts = 0, holes[0].verts = NULL, gp.numHoles = 1, gp.holes = holes;
            break;
        case 10:  // hole identical to the shell
            for (int i = 0; i < 4; i++) hv[i] = sq[3 - i];
            holes[0].numVerts = 4, holes[0].verts = hv, gp.numHoles = 1, gp.holes = holes;
            break;
        case 11: gp.numHoles = 0, gp.holes = (GeoLoop *)(uintptr_t)16; break;  // dangling pointer with numHoles = 0
        case 12: v[0].lat = M_PI / 2, v[1].lat = -M_PI / 2; break;              // pole to pole
        case 13: v[0].lng = -M_PI, v[1].lng = M_PI, v[2].lng = M_PI, v[3].lng = -M_PI; break;  // whole band
        case 14: for (int i = 0; i < 4; i++) v[i].lat *= 100, v[i].lng *= 100; break;          // outside the canonical range
        case 15: gp.geoloop.verts = NULL, gp.geoloop.numVerts = 0; break;
        case 16: case 17: case 18: {  // 2 / 8 / 40 holes, all identical to the shell (coinciding outlines traced again and again)
            int n = kind == 16 ? 2 : kind == 17 ? 8 : 40;
            for (int i = 0; i < 4; i++) hv[i] = sq[3 - i];
            for (int k = 0; k < n; k++) holes[k].numVerts = 4, holes[k].verts = hv;
            gp.numHoles = n, gp.holes = holes;
            break;
        }
        case 19: case 20: {  // 8 / 40 identical small holes inside the shell
            int n = kind == 19 ? 8 : 40;
            for (int i = 0; i < 4; i++) hv[i] = (LatLng){c.lat + (sq[3 - i].lat - c.lat) * 0.4, c.lng + (sq[3 - i].lng - c.lng) * 0.4};
            for (int k = 0; k < n; k++) holes[k].numVerts = 4, holes[k].verts = hv;
            gp.numHoles = n, gp.holes = holes;
            break;
        }
        case 22: case 23: case 24: case 25: case 26: {  // tiny shell (inside one cell) with a 12- / 24- / 48-vertex ring hole around it, vertexes one edge length apart (25, 26: 24 / 48 vertexes 3.2 edge lengths apart)
            int n = kind == 22 ? 12 : kind == 23 || kind == 25 ? 24 : 48;
            double e0 = poly_edge(res), R = (kind >= 25 ? 3.2 : 1.0) * e0 * n / (2 * M_PI);
            for (int i = 0; i < 4; i++) v[i] = (LatLng){c.lat + 0.02 * e0 * cos(M_PI / 2 * i), c.lng + 0.02 * e0 * sin(M_PI / 2 * i) / cos(c.lat)};
            for (int i = 0; i < n; i++) hv[i] = (LatLng){c.lat + R * cos(2 * M_PI * i / n), c.lng + R * sin(2 * M_PI * i / n) / cos(c.lat)};
            holes[0].numVerts = n, holes[0].verts = hv, gp.numHoles = 1, gp.holes = holes;
            ringhole = R < 0.3;
            break;
        }
        case 21: {  // 12 holes: the shell itself with the same winding as the shell
            for (int k = 0; k < 12; k++) holes[k].numVerts = 4, holes[k].verts = v;
            gp.numHoles = 12, gp.holes = holes;
            break;
        }
    }
    int64_t sz = -1;
    int resbad = res < 0 || res > 15, flagbad = flags > 3;
    H3Error e = CALL(maxPolygonToCellsSize(&gp, res, flags, &sz), "maxPolygonToCellsSize");
    if (flagbad) want(e, E_OPTION_INVALID, !resbad, "maxPolygonToCellsSize(invalid flags)");
    if (!e && sz >= 0 && sz < (1 << 22)) {
        uint64_t *out = calloc(sz ? sz : 1, 8);
        H3Error pe = CALL(polygonToCells(&gp, res, flags, out), "polygonToCells");
        // the scratch tables are sized from maxPolygonToCellsSize: running out of them is one of the "cannot happen" checks (E_FAILED)
        if (ringhole && pe) mc_fail("polygonToCells on a tiny shell with a %d-vertex ring hole (res %d, size %" PRId64 ") returned %u: an internal 'block too small' check was hit", gp.holes[0].numVerts, res, sz, pe);
        free(out);
    } else if (!e)
        mc_ctr(4, 1);
    e = CALL(maxPolygonToCellsSizeExperimental(&gp, res, flags, &sz), "maxPolygonToCellsSizeExperimental");
    if (flagbad) want(e, E_OPTION_INVALID, !resbad, "maxPolygonToCellsSizeExperimental(invalid flags)");
    else if (resbad) want(e, E_RES_DOMAIN, 1, "maxPolygonToCellsSizeExperimental(res out of range)");
    if (!e && sz >= 0 && sz < (1 << 22)) {
        uint64_t *out = calloc(sz ? sz : 1, 8);
        CALL(polygonToCellsExperimental(&gp, res, flags, sz, out), "polygonToCellsExperimental");
        free(out);
    } else if (!e)
        mc_ctr(4, 1);
    if (flags > 3) {
        uint64_t *out = calloc(4, 8);
        want(CALL(polygonToCellsExperimental(&gp, res, flags, 4, out), "polygonToCellsExperimental"), E_OPTION_INVALID, !resbad, "polygonToCellsExperimental(invalid flags)");
        free(out);
    }
    if (res < 0 || res > 15) {
        uint64_t *out = calloc(4, 8);
        want(CALL(polygonToCellsExperimental(&gp, res, 0, 4, out), "polygonToCellsExperimental"), E_RES_DOMAIN, 1, "polygonToCellsExperimental(res out of range)");
        free(out);
    }
    free(v), free(hv), free(holes);
    flush();
}
// malformed cell sets
// sets whose outlines have unusual loop structure (all loops clockwise, loops around the poles, the whole globe with holes): the hole /
// outer-loop bookkeeping of the multipolygon normaliser on its failure paths
static void op_setglobal(int kind, int res) {
    U64Vec s = {0};
    LatLng np = {M_PI / 2, 0}, sp = {-M_PI / 2, 0};
    uint64_t hn = 0, hs = 0;
    latLngToCell(&np, res, &hn);
    latLngToCell(&sp, res, &hs);
    if (kind == 100) uv_push(&s, hn), uv_push(&s, hs);                       // both pole cells
    if (kind == 101 || kind == 102) {                                         // pole cells + their rings
        uint64_t ring[7] = {0};
        gridDisk(hn, 1, ring);
        for (int i = 0; i < 7; i++)
            if (ring[i] && (kind == 101 || ring[i] != hn)) uv_push(&s, ring[i]);
        gridDisk(hs, 1, ring);
        for (int i = 0; i < 7; i++)
            if (ring[i] && (kind == 101 || ring[i] != hs)) uv_push(&s, ring[i]);
    }
    if (kind >= 103 && kind <= 106 && res <= 1) {                              // the whole grid minus 0 / 1 / 4 separated / many cells
        U64Vec f = {0};
        dom_full(res, &f);
        for (size_t i = 0; i < f.n; i++) {
            int bc = spec_bc(f.v[i]);
            int drop = kind == 104 ? i == 20 : kind == 105 ? (res == 0 ? (bc == 20 || bc == 45 || bc == 70 || bc == 95) : (i % 211 == 7)) : kind == 106 ? (i % 9 == 4) : 0;
            if (!drop) uv_push(&s, f.v[i]);
        }
        uv_free(&f);
    }
    if (!s.n) return;
    LinkedGeoPolygon lp;
    memset(&lp, 0, sizeof lp);
    uint64_t *in = malloc(s.n * 8);
    memcpy(in, s.v, s.n * 8);
    if (CALL(cellsToLinkedMultiPolygon(in, (int)s.n, &lp), "cellsToLinkedMultiPolygon") == 0) destroyLinkedMultiPolygon(&lp);
    free(in);
    uv_free(&s);
    flush();
}
static void op_setagg(const McArg *a) {
    int kind = (int)a[0].i, res = (int)a[1].i;
    if (kind >= 100) {
        op_setglobal(kind, res);
        return;
    }
    int d[15] = {0};
    uint64_t root = spec_mk(res, kind % 2 ? 4 : 20, d);
    U64Vec s = {0};
    SpecChildIt it;
    int cr = res + 2 > 15 ? 15 : res + 2;
    for (spec_child_first(&it, root, cr); !it.done; spec_child_next(&it)) uv_push(&s, it.h);
    switch (kind / 2) {
        case 0: break;
        case 1: s.v[s.n - 1] = s.v[0]; break;                                  // duplicate
        case 2: for (size_t i = 0; i < s.n; i += 3) s.v[i] = 0; break;         // zeros interspersed
        case 3: if (cr > 0) s.v[1] = spec_parent(s.v[1], cr - 1); break;       // mixed resolutions
        case 4: s.v[s.n / 2] = 0x85283473fffffffull | ((uint64_t)2 << 59); break;  // an edge index among cells
        case 5: for (size_t i = 0; i < s.n; i++) s.v[i] |= (uint64_t)5 << 56; break;  // reserved bits
        case 6: for (size_t i = 0; i < s.n; i++) s.v[i] = s.v[0]; break;       // all identical
        case 7: s.v[0] = ~0ull, s.v[1] = 1; break;                             // garbage
        case 8: for (size_t i = 1; i < s.n; i++) s.v[i] = spec_set_digit(s.v[i], cr ? cr : 1, 7); break;  // digit 7 planted
    }
    uint64_t *in = malloc(s.n * 8), *out = calloc(s.n, 8);
    memcpy(in, s.v, s.n * 8);
    CALL(compactCells(in, out, s.n), "compactCells");
    for (int r = 0; r <= 15; r += 3) {
        int64_t n;
        if (CALL(uncompactCellsSize(in, s.n, r, &n), "uncompactCellsSize") == 0 && n >= 0 && n < (1 << 20)) {
            uint64_t *u = calloc(n ? n : 1, 8);
            CALL(uncompactCells(in, s.n, u, n, r), "uncompactCells");
            free(u);
        }
    }
    for (int k = 0; k <= 2; k++) {
        int64_t seg = 3 * k * (k + 1) + 1;
        uint64_t *o = calloc(seg * s.n, 8);
        CALL(gridDisksUnsafe(in, (int)s.n, k, o), "gridDisksUnsafe");
        free(o);
    }
    LinkedGeoPolygon lp;
    if (CALL(cellsToLinkedMultiPolygon(in, (int)s.n, &lp), "cellsToLinkedMultiPolygon") == 0) destroyLinkedMultiPolygon(&lp);
    CALL(compactCells(in, out, 0), "compactCells");
    free(in), free(out);
    uv_free(&s);
    flush();
}
const McOp MC_OPS[] = {{"un", "h", op_un}, {"bin", "hhi", op_bin}, {"dbl", "dddd", op_dbl}, {"ints", "i", op_ints}, {"polyagg", "iii", op_polyagg}, {"setagg", "ii", op_setagg}, {"dblpoly", "dddd", op_dblpoly}, {"polycap", "iiii", op_polycap}};
const int MC_NOPS = 8;

static U64Vec g_un, g_bin;
static void ph_un(void *u) {
    for (size_t i = 0; i < g_un.n; i++) {
        if (!mc_mine(i)) continue;
        if (mc_tick(63)) return;
        mc_states(1);
        MC_RUN(OP_UN, H(g_un.v[i]));
    }
}
static void ph_bin(void *u) {
    for (size_t i = 0; i < g_bin.n; i++) {
        if (!mc_mine(i)) continue;
        if (mc_expired()) return;
        for (size_t j = 0; j < g_bin.n; j++) MC_RUN(OP_BIN, H(g_bin.v[i]), H(g_bin.v[j]), I((i + j) % 16 == 0));
    }
}
static void ph_dbl(void *u) {
    double dbl[40];
    int nd = dom_dbls(dbl);
    uint64_t idx = 0;
    for (int i = 0; i < nd; i++)
        for (int j = 0; j < nd; j++)
            for (int k = 0; k < nd; k += 3)
                for (int l = 0; l < nd; l += 4, idx++) {
                    if (!mc_mine(idx)) continue;
                    if (mc_tick(255)) return;
                    MC_RUN(OP_DBL, D(dbl[i]), D(dbl[j]), D(dbl[k]), D(dbl[l]));
                    if ((k == 0 || k == 9 || k == 18) && (l == 4 || l == 12)) MC_RUN(OP_DBLPOLY, D(dbl[i]), D(dbl[j]), D(dbl[k]), D(dbl[l]));
                }
}
static void ph_misc(void *u) {
    uint64_t idx = 0;
    for (int r = -3; r <= 18; r++, idx++)
        if (mc_mine(idx)) MC_RUN(OP_INTS, I(r));
    for (int k = 0; k < DOM_NINTS; k++, idx++)
        if (mc_mine(idx)) MC_RUN(OP_INTS, I(DOM_INTS[k]));
    static const int64_t fl[] = {0, 1, 2, 3, 4, 0x10, 0x80000000LL};
    static const int rs[] = {0, 1, 4, 9, 15, -1, 16};
    for (int kind = 0; kind < 27; kind++)
        for (int ri = 0; ri < 7; ri++)
            for (int fi = 0; fi < 7; fi++, idx++)
                if (mc_mine(idx)) MC_RUN(OP_POLYAGG, I(kind), I(rs[ri]), I(fl[fi]));
    for (int kind = 0; kind < 18; kind++)
        for (int res = 0; res <= 14; res++, idx++)
            if (mc_mine(idx)) MC_RUN(OP_SETAGG, I(kind), I(res));
    for (int kind = 100; kind <= 106; kind++)
        for (int res = 0; res <= 15; res++, idx++)
            if (mc_mine(idx)) MC_RUN(OP_SETAGG, I(kind), I(res));
    poly_build_anchors();
    for (int res = 0; res <= 15; res += 2)
        for (int sh = 1; sh <= 8; sh += 7)
            for (int an = 0; an < poly_nanchor; an += 37)
                for (int sc = 1; sc <= 3; sc++, idx++)
                    if (mc_mine(idx)) MC_RUN(OP_POLYCAP, I(sh), I(an), I(sc), I(res + (an & 1)));
}
// ---- sequence BFS: canonical class of an index value
static uint64_t canon(uint64_t x) {
    int res = spec_res(x), bc = spec_bc(x), first = 0, seven = 0;
    for (int r = 1; r <= 15; r++) {
        int dgt = spec_digit(x, r);
        if (r <= res && !first && dgt) first = dgt;
        if (r <= res && dgt == 7) seven = 1;
    }
    uint64_t cls = (x >> 56);  // high, mode, reserved
    cls = cls << 4 | (uint64_t)res;
    cls = cls << 2 | (uint64_t)(bc >= 122 ? 2 : spec_is_pent_bc(bc) ? 1 : 0);
    cls = cls << 3 | (uint64_t)first;
    cls = cls << 1 | (uint64_t)seven;
    cls = cls << 1 | (uint64_t)spec_valid((x & ~((uint64_t)0xff << 56)) | ((uint64_t)1 << 59));
    return cls;
}
static uint64_t *g_seq_out;  // shared: representatives found by workers
static int64_t *g_seq_n;
#define SEQCAP (1 << 20)
static void ph_seq_collect(void *u) {
    U64Vec outs = {0};
    sink = &outs;
    for (size_t i = 0; i < g_un.n; i++) {
        if (!mc_mine(i)) continue;
        if (mc_tick(63)) break;
        MC_RUN(OP_UN, H(g_un.v[i]));
        if (i < g_bin.n)
            for (size_t j = 0; j < g_bin.n; j += 7) MC_RUN(OP_BIN, H(g_un.v[i]), H(g_bin.v[j]), I(j % 16 == 0));
    }
    sink = NULL;
    uv_sortuniq(&outs);
    for (size_t i = 0; i < outs.n; i++) {
        int64_t k = __sync_fetch_and_add(g_seq_n, 1);
        if (k < SEQCAP) g_seq_out[k] = outs.v[i];
    }
}
int main(int argc, char **argv) {
    mc_init(argc, argv);
    mc_case_limit = 25;  // no case of this harness needs more than a fraction of a second: a hang is recognised quickly
    dom_idx(mc_thorough ? 1 : 0, &g_un);
    dom_idx(mc_thorough ? 0 : -1, &g_bin);
    if (!mc_thorough) {
        // tiny pair alphabet: every second value
        size_t k = 0;
        for (size_t i = 0; i < g_bin.n; i += 2) g_bin.v[k++] = g_bin.v[i];
        g_bin.n = k;
    }
    snprintf(mc_bounds, sizeof mc_bounds, "un over IDX(%s) = %zu values x INTS; bin over %zu^2 pairs; DBLS^2 x thinned DBLS^2 x INTS resolutions; 16 malformed polygon kinds x 7 resolutions x 7 flag values; "
             "18 malformed set kinds x 15 resolutions; sequences: depth %d (outputs of depth-1 calls canonicalised into classes, one representative per class re-explored)",
             mc_thorough ? "large" : "small", g_un.n, g_bin.n, mc_thorough ? 2 : 1);
    mc_phase("unary functions", ph_un, NULL);
    mc_phase("binary functions", ph_bin, NULL);
    mc_phase("double arguments", ph_dbl, NULL);
    mc_phase("scalars and malformed aggregates", ph_misc, NULL);
    // sequences
    g_seq_out = mc_shalloc(SEQCAP * 8);
    g_seq_n = mc_shalloc(8);
    U64Vec seen = {0}, pool = {0};
    for (size_t i = 0; i < g_un.n; i++) uv_push(&seen, canon(g_un.v[i]));
    uv_sortuniq(&seen);
    // depth-1 seeds: the valid and near-valid part of the small alphabet
    U64Vec save_un = g_un;
    U64Vec seeds = {0};
    dom_idx(-1, &seeds);
    g_un = seeds;
    for (int depth = 1; depth <= (mc_thorough ? 2 : 1); depth++) {
        *g_seq_n = 0;
        char nm[64];
        snprintf(nm, sizeof nm, "sequence BFS depth %d: collect outputs", depth);
        mc_phase(nm, ph_seq_collect, NULL);
        int64_t n = *g_seq_n < SEQCAP ? *g_seq_n : SEQCAP;
        pool.n = 0;
        U64Vec cls = {0};
        for (int64_t i = 0; i < n; i++) {
            uint64_t c = canon(g_seq_out[i]);
            if (uv_has(&seen, c)) continue;
            int dup = 0;
            for (size_t q = 0; q < cls.n; q++) dup |= cls.v[q] == c;
            if (dup) continue;
            uv_push(&cls, c);
            uv_push(&pool, g_seq_out[i]);
        }
        for (size_t q = 0; q < cls.n; q++) uv_push(&seen, cls.v[q]);
        uv_sortuniq(&seen);
        mc_workers[0].ctr[5] += pool.n;
        fprintf(stderr, "[C12] depth %d: %" PRId64 " outputs, %zu new classes\n", depth, n, pool.n);
        if (!pool.n) break;
        uv_sortuniq(&pool);
        g_un = pool;
        snprintf(nm, sizeof nm, "sequence BFS depth %d: explore new classes", depth);
        mc_phase(nm, ph_un, NULL);
        // pairs: new representatives x tiny alphabet, both orders
        U64Vec save_bin = g_bin;
        U64Vec mix = {0};
        for (size_t i = 0; i < pool.n; i++) uv_push(&mix, pool.v[i]);
        if (mix.n > 1500) {  // keep the pair product bounded: one representative per (mode,res,validity) coarse class first
            size_t k = 0, step = mix.n / 1500 + 1;
            for (size_t i = 0; i < mix.n; i += step) mix.v[k++] = mix.v[i];
            mix.n = k;
        }
        for (size_t i = 0; i < save_bin.n; i += 9) uv_push(&mix, save_bin.v[i]);
        uv_sortuniq(&mix);
        g_bin = mix;
        snprintf(nm, sizeof nm, "sequence BFS depth %d: pairs with new classes", depth);
        mc_phase(nm, ph_bin, NULL);
        g_bin = save_bin;
        uv_free(&mix);
    }
    g_un = save_un;
    return mc_finish();
}
