// BUILD: variant=opt
// C03 -- cell <-> centre bijection and complete enumeration per resolution.
#include "mc.h"
#include "dom.h"

const char *MC_PROPERTY = "C03";
const char *MC_RULE =
    "rt(cell): cellToLatLng succeeds, latLngToCell(centre, res) returns the cell, isPentagon agrees with the spec; rtn(cell): the "
    "same for the cell and each of its geometric neighbours (closes the families under one step); counts: getNumCells for all "
    "resolutions and INTS, getPentagons(r) == the 12 spec pentagons for every r, getRes0Cells == FULL(0), res0CellCount, "
    "pentagonCount; tally(r): number of cells enumerated at r whose round trip holds == 2+120*7^r and exactly 12 pentagons. "
    "Cells come from the spec enumerator, not from the library. Non-trivial: cell under a pentagon base cell, or on a digit run "
    "(base-cell seam / icosahedron edge), or resolution >= 1 counts.";
const char *MC_ASSUME[] = {"spec enumerator is the set of valid cells (C01 decides that isValidCell agrees)", NULL};
const char *MC_CTR_NAMES[] = {"cells_round_tripped", "pentagons_seen", "neighbour_cells", NULL};
const char *MC_MAX_NAMES[] = {NULL};

static int rt1(uint64_t h) {
    LatLng g;
    uint64_t back = 0;
    mc_trans(3);
    H3Error e = cellToLatLng(h, &g);
    if (e) {
        mc_fail("cellToLatLng(%" PRIx64 ") returned %d", h, e);
        return 0;
    }
    if (!(g.lat >= -M_PI / 2 - 1e-12 && g.lat <= M_PI / 2 + 1e-12 && g.lng >= -M_PI - 1e-12 && g.lng <= M_PI + 1e-12)) {
        mc_fail("cellToLatLng(%" PRIx64 ") = (%.17g,%.17g) out of range", h, g.lat, g.lng);
        return 0;
    }
    e = latLngToCell(&g, spec_res(h), &back);
    if (e || back != h) {
        mc_fail("latLngToCell(cellToLatLng(%" PRIx64 ")=(%.17g,%.17g), %d) = %d,%" PRIx64, h, g.lat, g.lng, spec_res(h), e, back);
        return 0;
    }
    int ip = isPentagon(h) ? 1 : 0, sp = spec_is_pentagon(h);
    if (ip != sp) {
        mc_fail("isPentagon(%" PRIx64 ") = %d, spec says %d", h, ip, sp);
        return 0;
    }
    mc_ctr(0, 1);
    if (sp) mc_ctr(1, 1);
    return 1;
}
static int is_special(uint64_t h) {
    int res = spec_res(h), run = 0;
    if (spec_is_pent_bc(spec_bc(h))) return 1;
    for (int r = 2; r <= res; r++) run += spec_digit(h, r) == spec_digit(h, r - 1);
    return res >= 2 && run >= res - 2;
}
static void op_rt(const McArg *a) {
    if (is_special(a[0].u)) mc_nontrivial();
    rt1(a[0].u);
}
static void op_rtn(const McArg *a) {
    uint64_t h = a[0].u, nb[8];
    if (is_special(h)) mc_nontrivial();
    if (!rt1(h)) return;
    int n = geo_nbrs(h, nb);
    MC_CHECK(n == (spec_is_pentagon(h) ? 5 : 6), "cell %" PRIx64 " has %d geometric neighbours (probing across its boundary segments)", h, n);
    for (int i = 0; i < n; i++) {
        MC_CHECK(spec_valid(nb[i]) && spec_res(nb[i]) == spec_res(h), "latLngToCell next to %" PRIx64 " returned %" PRIx64, h, nb[i]);
        mc_ctr(2, 1);
        if (!rt1(nb[i])) return;
    }
}
// subtree: args parent (res <= 2 ancestor) r : round trip of every descendant at r; also tallies
static uint64_t *g_tally;  // shared: [r] count ok
static void op_sub(const McArg *a) {
    uint64_t p = a[0].u;
    int r = (int)a[1].i;
    SpecChildIt it;
    int64_t n = 0;
    if (spec_is_pent_bc(spec_bc(p))) mc_nontrivial();
    for (spec_child_first(&it, p, r); !it.done; spec_child_next(&it)) {
        if (!rt1(it.h)) return;
        n++;
    }
    mc_states(n);
    __sync_fetch_and_add(&g_tally[r], n);
}
static void op_counts(const McArg *a) {
    mc_nontrivial();
    for (int k = 0; k < DOM_NINTS + 16; k++) {
        int r = k < DOM_NINTS ? (int)DOM_INTS[k] : k - DOM_NINTS;
        int64_t n = 0x7777;
        mc_trans(2);
        H3Error e = getNumCells(r, &n);
        uint64_t p[14];
        for (int i = 0; i < 14; i++) p[i] = 0xC0FFEE;
        H3Error e2 = getPentagons(r, p + 1);
        if (r < 0 || r > 15) {
            MC_CHECK(e == E_RES_DOMAIN, "getNumCells(%d) returned %d (out %" PRId64 "), expected E_RES_DOMAIN", r, e, n);
            MC_CHECK(e2 == E_RES_DOMAIN, "getPentagons(%d) returned %d, expected E_RES_DOMAIN", r, e2);
            continue;
        }
        MC_CHECK(e == 0 && n == spec_numcells(r), "getNumCells(%d) = %d,%" PRId64 " expected %" PRId64, r, e, n, spec_numcells(r));
        MC_CHECK(e2 == 0 && p[0] == 0xC0FFEE && p[13] == 0xC0FFEE, "getPentagons(%d) returned %d or wrote outside 12 slots", r, e2);
        int seen[12] = {0};
        for (int i = 1; i <= 12; i++) {
            MC_CHECK(spec_valid(p[i]) && spec_res(p[i]) == r && spec_is_pentagon(p[i]), "getPentagons(%d) slot %d = %" PRIx64 " is not a res-%d pentagon", r, i - 1, p[i], r);
            for (int j = 0; j < 12; j++)
                if (SPEC_PENT_BC[j] == spec_bc(p[i])) seen[j]++;
        }
        for (int j = 0; j < 12; j++) MC_CHECK(seen[j] == 1, "getPentagons(%d) lists base cell %d %d times", r, SPEC_PENT_BC[j], seen[j]);
    }
    uint64_t b[124];
    b[0] = b[123] = 0xC0FFEE;
    mc_trans(3);
    MC_CHECK(getRes0Cells(b + 1) == 0 && b[0] == 0xC0FFEE && b[123] == 0xC0FFEE, "getRes0Cells failed or overran");
    U64Vec f0 = {0}, got = {0};
    dom_full(0, &f0);
    for (int i = 1; i <= 122; i++) uv_push(&got, b[i]);
    uv_sortuniq(&got);
    MC_CHECK(got.n == 122 && memcmp(got.v, f0.v, 122 * 8) == 0, "getRes0Cells is not the set of 122 resolution-0 cells");
    MC_CHECK(res0CellCount() == 122 && pentagonCount() == 12, "res0CellCount/pentagonCount = %d/%d", res0CellCount(), pentagonCount());
}
static void op_tally(const McArg *a) {
    int r = (int)a[0].i;
    mc_nontrivial();
    MC_CHECK((int64_t)g_tally[r] == spec_numcells(r), "resolution %d: %" PRIu64 " cells round-tripped, expected %" PRId64, r, g_tally[r], spec_numcells(r));
}
// census(r, bc): every one of the 8^r digit strings under base-cell number bc (0..127) at resolution r (unused digits 7, mode 1) is put to
// isValidCell; the number accepted must be 7^r (hexagon base cell), 1+5(7^r-1)/6 (pentagon base cell) or 0 (bc >= 122), so that the valid
// cells of a resolution number exactly 2+120*7^r = getNumCells(r); and every accepted value must round-trip through its centre.
static void op_census(const McArg *a) {
    int r = (int)a[0].i, bc = (int)a[1].i;
    uint64_t n = 1, acc = 0;
    for (int i = 0; i < r; i++) n *= 8;
    uint64_t base = ((uint64_t)1 << 59) | ((uint64_t)r << 52) | ((uint64_t)bc << 45);
    for (uint64_t f = 0; f < n; f++) {
        uint64_t h = base;
        for (int i = 1; i <= 15; i++) {
            uint64_t d = i <= r ? (f >> (3 * (r - i))) & 7 : 7;
            h |= d << (3 * (15 - i));
        }
        if (!isValidCell(h)) continue;
        acc++;
        LatLng g;
        uint64_t back = 0;
        H3Error e = cellToLatLng(h, &g);
        if (e || latLngToCell(&g, r, &back) || back != h) {
            mc_fail("isValidCell accepts %" PRIx64 " but it does not round-trip through its centre (cellToLatLng %d, back %" PRIx64 ")", h, e, back);
            return;
        }
    }
    mc_trans(n);
    int64_t p7 = 1;
    for (int i = 0; i < r; i++) p7 *= 7;
    int64_t want = bc >= 122 ? 0 : spec_is_pent_bc(bc) ? 1 + 5 * (p7 - 1) / 6 : p7;
    if (spec_is_pent_bc(bc) || bc >= 120) mc_nontrivial();
    MC_CHECK((int64_t)acc == want, "resolution %d, base cell %d: isValidCell accepts %" PRIu64 " index values, the cell count formula 2+120*7^r needs %" PRId64, r, bc, acc, want);
}
// dev(r, fill, bc): census by single and double digit deviations at resolutions the full census cannot reach: the fill pattern d^r under
// base cell bc with one or two digit positions (1..15) replaced by every value 0..7: isValidCell must accept exactly the values the
// documented layout makes cells, and every accepted value must round-trip through its centre
static void op_dev(const McArg *a) {
    int r = (int)a[0].i, fill = (int)a[1].i, bc = (int)a[2].i;
    int d[15];
    for (int i = 0; i < 15; i++) d[i] = i < r ? fill : 7;
    uint64_t base = ((uint64_t)1 << 59) | ((uint64_t)r << 52) | ((uint64_t)bc << 45);
    for (int i = 0; i < 15; i++) base |= (uint64_t)d[i] << (3 * (14 - i));
    for (int p1 = 0; p1 < 15; p1++)
        for (int p2 = p1; p2 < 15; p2++)
            for (int v1 = 0; v1 < 8; v1++)
                for (int v2 = 0; v2 < (p2 == p1 ? 1 : 8); v2++) {
                    uint64_t h = (base & ~((uint64_t)7 << (3 * (14 - p1)))) | ((uint64_t)v1 << (3 * (14 - p1)));
                    if (p2 != p1) h = (h & ~((uint64_t)7 << (3 * (14 - p2)))) | ((uint64_t)v2 << (3 * (14 - p2)));
                    int acc = isValidCell(h), want = spec_valid(h);
                    mc_trans(1);
                    MC_CHECK(acc == want, "isValidCell(%" PRIx64 ") = %d, the documented layout says %d: the valid cells of resolution %d would not number 2+120*7^r", h, acc, want, r);
                    if (!acc) continue;
                    LatLng g;
                    uint64_t back = 0;
                    H3Error e = cellToLatLng(h, &g);
                    MC_CHECK(e == 0 && latLngToCell(&g, r, &back) == 0 && back == h, "valid cell %" PRIx64 " does not round-trip through its centre (cellToLatLng %d, back %" PRIx64 ")", h, e, back);
                }
    if (spec_is_pent_bc(bc)) mc_nontrivial();
}
enum { OP_RT, OP_RTN, OP_SUB, OP_COUNTS, OP_TALLY, OP_CENSUS, OP_DEV };
const McOp MC_OPS[] = {{"rt", "h", op_rt}, {"rtn", "h", op_rtn}, {"sub", "hi", op_sub}, {"counts", "", op_counts}, {"tally", "i", op_tally}, {"census", "ii", op_census}, {"dev", "iii", op_dev}};
const int MC_NOPS = 7;

static int g_fullmax;
static void ph_full(void *u) {
    uint64_t idx = 0;
    for (int r = g_fullmax; r >= 0; r--) {
        int pr = r < 2 ? r : 2;
        U64Vec ps = {0};
        dom_full(pr, &ps);
        for (size_t i = 0; i < ps.n; i++, idx++) {
            if (!mc_mine(idx)) continue;
            if (mc_expired()) return;
            MC_RUN(OP_SUB, H(ps.v[i]), I(r));
        }
        uv_free(&ps);
    }
}
static void ph_tally(void *u) {
    if (mc_wid) return;
    MC_RUN(OP_COUNTS, H(0));
    for (int r = 0; r <= g_fullmax; r++) MC_RUN(OP_TALLY, I(r));
}
static void ph_census(void *u) {
    uint64_t idx = 0;
    for (int r = 0; r <= (mc_thorough ? 6 : 5); r++)
        for (int bc = 0; bc < 128; bc++, idx++) {
            if (!mc_mine(idx)) continue;
            if (mc_expired()) return;
            MC_RUN(OP_CENSUS, I(r), I(bc));
        }
}
static void ph_dev(void *u) {
    static const int bcs[] = {0, 4, 15, 58, 117, 121};
    uint64_t idx = 0;
    for (int r = 0; r <= 15; r++)
        for (int fill = 0; fill <= 6; fill += 1)
            for (int b = 0; b < 6; b++, idx++) {
                if (!mc_mine(idx)) continue;
                if (mc_expired()) return;
                MC_RUN(OP_DEV, I(r), I(fill), I(bcs[b]));
            }
}
static U64Vec g_fine;
static void ph_fine(void *u) {
    for (size_t i = 0; i < g_fine.n; i++) {
        if (!mc_mine(i)) continue;
        if (mc_tick(255)) return;
        mc_states(1);
        MC_RUN(OP_RTN, H(g_fine.v[i]));
    }
}
int main(int argc, char **argv) {
    mc_init(argc, argv);
    g_fullmax = mc_thorough ? 8 : 6;
    g_tally = mc_shalloc(16 * 8);
    for (int r = 0; r <= 15; r++) dom_fine_raw(r, 0, &g_fine);
    snprintf(mc_bounds, sizeof mc_bounds, "FULL(0..%d) complete (spec enumerator); census of all 128*8^r index values for r<=%d; FINE level %d families (%zu cells over all 16 resolutions) each with its geometric neighbours",
             g_fullmax, mc_thorough ? 6 : 5, 0, g_fine.n);
    mc_phase("complete resolutions", ph_full, NULL);
    mc_phase("counts and tallies", ph_tally, NULL);
    mc_phase("census of accepted index values", ph_census, NULL);
    mc_phase("one- and two-digit deviations at all 16 resolutions", ph_dev, NULL);
    mc_phase("fine families + neighbours", ph_fine, NULL);
    return mc_finish();
}
