// BUILD: variant=opt
// C02 -- latLngToCell returns the cell whose boundary contains the point.
#include "mc.h"
#include "dom.h"

const char *MC_PROPERTY = "C02";
const char *MC_RULE =
    "pt(res, lat, lng): one probe through latLngToCell; result must be a valid cell of that resolution whose boundary (local "
    "gnomonic chart about its centre, winding number, else planar distance/(1+rho^2) as a lower bound of the angular distance) "
    "contains the probe within max(2e-12, 4e-15/cos lat); argument classes (resolution outside 0..15 -> E_RES_DOMAIN, non-finite "
    "-> E_LATLNG_DOMAIN, output untouched; other finite -> success and valid). cell(h, thin): the probe lattice of one cell: every "
    "boundary segment x t in {0,1e-9,1e-4,.1,.5,.9,1-1e-4} x radial offset 10^-k (k=1..13; thin: odd k) inside / on / outside, plus "
    "the centre; violations are keyed by the single probe. Special points: icosahedron vertices, edge points, face centres, "
    "poles, antimeridian, each displaced in 8 directions by 10^-k (k=0..16) at all 16 resolutions, longitudes also shifted by "
    "+-2pi. Non-trivial: a probe closer than 1e-3 of the centre-to-edge distance to an edge or corner (k>=3), or a special point.";
const char *MC_ASSUME[] = {"GEO chart oracle and libm are trusted; cellToBoundary/cellToLatLng of the returned cell define the polygon "
                           "(their mutual consistency is C08's)",
                           NULL};
const char *MC_CTR_NAMES[] = {"probes", "probes_inside_by_winding", "probes_within_tolerance", "error_class_cases", "cells_with_lattice", "reserved5", "reserved6", "axis_parallel_edge_cells", NULL};
const char *MC_MAX_NAMES[] = {"excess_over_boundary_rad", "excess_over_tolerance_ratio", NULL};
#define CANARY 0xC0FFEE0DDEADBEEFull
enum { OP_PT, OP_CELL };

// returns 1 ok
static int probe(int res, LatLng p, int keyed) {
    uint64_t h = CANARY;
    mc_trans(1);
    mc_ctr(0, 1);
    H3Error e = latLngToCell(&p, res, &h);
    McArg args[3] = {I(res), D(p.lat), D(p.lng)};
    int badres = res < 0 || res > 15, badll = !isfinite(p.lat) || !isfinite(p.lng);
    if (badres || badll) {
        mc_ctr(3, 1);
        int ok = (badres && e == E_RES_DOMAIN) || (badll && e == E_LATLNG_DOMAIN);
        if (!ok) {
            MC_FAIL_AS(OP_PT, 3, args, "latLngToCell((%.17g,%.17g), %d) returned %d; expected %s", p.lat, p.lng, res, e,
                       badres && badll ? "E_RES_DOMAIN or E_LATLNG_DOMAIN" : badres ? "E_RES_DOMAIN" : "E_LATLNG_DOMAIN");
            return 0;
        }
        if (h != CANARY) {
            MC_FAIL_AS(OP_PT, 3, args, "latLngToCell((%.17g,%.17g), %d) failed with %d but wrote an index %" PRIx64, p.lat, p.lng, res, e, h);
            return 0;
        }
        return 1;
    }
    if (e || !spec_valid(h) || spec_res(h) != res) {
        MC_FAIL_AS(OP_PT, 3, args, "latLngToCell((%.17g,%.17g), %d) = %d, %" PRIx64 ": not success with a valid cell of resolution %d", p.lat,
                   p.lng, res, e, h, res);
        return 0;
    }
    if (fabs(p.lat) > M_PI / 2 || fabs(p.lng) > 2 * M_PI) return 1;  // only success/validity is stated outside the range
    double ex;
    if (cell_contains(h, p, &ex)) {
        mc_ctr(1, 1);
        return 1;
    }
    double tol = fmax(2e-12, 4e-15 / cos(p.lat));
    mc_max(0, ex < 1e8 ? ex : 0);
    mc_max(1, ex / tol);
    if (ex > tol) {
        MC_FAIL_AS(OP_PT, 3, args, "latLngToCell((%.17g,%.17g), %d) = %" PRIx64 " but the point lies %.3g rad outside that cell's boundary "
                   "(tolerance %.3g)", p.lat, p.lng, res, h, ex, tol);
        return 0;
    }
    mc_ctr(2, 1);
    return 1;
}
static void op_pt(const McArg *a) {
    LatLng p = {a[1].d, a[2].d};
    mc_nontrivial();
    probe((int)a[0].i, p, 1);
}
static const double TS[] = {0, 1e-9, 1e-4, 0.1, 0.5, 0.9, 1 - 1e-4};
static void op_cell(const McArg *a) {
    uint64_t h = a[0].u;
    int thin = (int)a[1].i, res = spec_res(h);
    LatLng c;
    CellBoundary cb;
    MC_CHECK(cellToLatLng(h, &c) == 0 && cellToBoundary(h, &cb) == 0 && cb.numVerts >= 3 && cb.numVerts <= 10, "cellToLatLng/cellToBoundary(%" PRIx64 ") failed", h);
    mc_ctr(4, 1);
    mc_nontrivial();
    P2 bv[10];
    for (int i = 0; i < cb.numVerts; i++) bv[i] = gno(c, cb.verts[i]);
    for (int i = 0; i < cb.numVerts; i++) {
        P2 A = bv[i], B = bv[(i + 1) % cb.numVerts];
        for (unsigned ti = 0; ti < sizeof TS / sizeof *TS; ti++) {
            P2 m = {A.x * (1 - TS[ti]) + B.x * TS[ti], A.y * (1 - TS[ti]) + B.y * TS[ti]};
            for (int k = 1; k <= 13; k += thin ? 2 : 1) {
                double f = pow(10, -k);
                for (int sgn = -1; sgn <= 1; sgn++) {
                    if (sgn == 0 && k > 1) continue;  // the on-edge point once
                    P2 q = {m.x * (1 + sgn * f), m.y * (1 + sgn * f)};
                    if (!probe(res, ungno(c, q), 0)) return;
                }
            }
        }
    }
    probe(res, c, 0);
}
const McOp MC_OPS[] = {{"pt", "idd", op_pt}, {"cell", "hi", op_cell}};
const int MC_NOPS = 2;

// ---- special points from geometry: icosahedron vertices = centres of the 12 res-0 pentagons
typedef struct {
    double x, y, z;
} V3;
static V3 v3(LatLng g) { return (V3){cos(g.lat) * cos(g.lng), cos(g.lat) * sin(g.lng), sin(g.lat)}; }
static LatLng ll(V3 v) {
    double n = sqrt(v.x * v.x + v.y * v.y + v.z * v.z);
    return (LatLng){asin(v.z / n), atan2(v.y, v.x)};
}
static LatLng g_special[4000];
static int g_nspecial;
static LatLng g_facecentres[20];
static int g_nfaces;
static void build_special(void) {
    V3 vx[12];
    int d[15] = {0};
    for (int i = 0; i < 12; i++) {
        LatLng g;
        cellToLatLng(spec_mk(0, SPEC_PENT_BC[i], d), &g);
        vx[i] = v3(g);
        g_special[g_nspecial++] = g;
    }
    for (int i = 0; i < 12; i++)
        for (int j = i + 1; j < 12; j++) {
            double dt = vx[i].x * vx[j].x + vx[i].y * vx[j].y + vx[i].z * vx[j].z;
            if (dt < 0.4) continue;  // adjacent vertices: cos = 0.447
            for (int s = 1; s <= 5; s++) {  // 5 points along each of the 30 edges (incl. midpoint)
                double t = s / 6.0;
                V3 m = {vx[i].x * (1 - t) + vx[j].x * t, vx[i].y * (1 - t) + vx[j].y * t, vx[i].z * (1 - t) + vx[j].z * t};
                g_special[g_nspecial++] = ll(m);
            }
            for (int k = j + 1; k < 12; k++) {
                double d2 = vx[i].x * vx[k].x + vx[i].y * vx[k].y + vx[i].z * vx[k].z;
                double d3 = vx[j].x * vx[k].x + vx[j].y * vx[k].y + vx[j].z * vx[k].z;
                if (d2 < 0.4 || d3 < 0.4) continue;
                V3 m = {vx[i].x + vx[j].x + vx[k].x, vx[i].y + vx[j].y + vx[k].y, vx[i].z + vx[j].z + vx[k].z};
                g_facecentres[g_nfaces++] = ll(m);
                g_special[g_nspecial++] = ll(m);
            }
        }
    // poles and near-pole latitudes, antimeridian, zero meridian, equator
    for (int s = -1; s <= 1; s += 2) {
        g_special[g_nspecial++] = (LatLng){s * M_PI / 2, 0};
        g_special[g_nspecial++] = (LatLng){s * M_PI / 2, 2.5};
        for (int k = 1; k <= 16; k++)
            for (int m = 0; m < 4; m++) g_special[g_nspecial++] = (LatLng){s * (M_PI / 2 - pow(10, -k)), -M_PI + m * M_PI / 2 + 0.3};
        for (int k = 0; k < 7; k++) {
            g_special[g_nspecial++] = (LatLng){-1.4 + k * 0.47, s * M_PI};
            g_special[g_nspecial++] = (LatLng){-1.4 + k * 0.47, 0};
        }
    }
    g_special[g_nspecial++] = (LatLng){0, 0};
}
static void ph_special(void *u) {
    uint64_t idx = 0;
    for (int s = 0; s < g_nspecial; s++)
        for (int res = 0; res <= 15; res++, idx++) {
            if (!mc_mine(idx)) continue;
            if (mc_expired()) return;
            LatLng c = g_special[s];
            MC_RUN(OP_PT, I(res), D(c.lat), D(c.lng));
            for (int k = 0; k <= 16; k++)
                for (int dir = 0; dir < 8; dir++) {
                    double f = pow(10, -k), an = dir * M_PI / 4 + 0.1;
                    double lat = c.lat + f * sin(an), lng = c.lng + f * cos(an) / fmax(cos(c.lat), 1e-3);
                    if (lat > M_PI / 2) lat = M_PI / 2;
                    if (lat < -M_PI / 2) lat = -M_PI / 2;
                    if (lng > 2 * M_PI || lng < -2 * M_PI) continue;
                    MC_RUN(OP_PT, I(res), D(lat), D(lng));
                    if (dir % 4 == 0 && lng + 2 * M_PI <= 2 * M_PI) MC_RUN(OP_PT, I(res), D(lat), D(lng + 2 * M_PI));
                    if (dir % 4 == 0 && lng - 2 * M_PI >= -2 * M_PI) MC_RUN(OP_PT, I(res), D(lat), D(lng - 2 * M_PI));
                }
        }
}
static void ph_args(void *u) {
    double dbl[40];
    int nd = dom_dbls(dbl);
    uint64_t idx = 0;
    for (int i = 0; i < nd; i++)
        for (int j = 0; j < nd; j++)
            for (int k = 0; k < DOM_NINTS + 2; k++, idx++) {
                if (!mc_mine(idx)) continue;
                int res = k < DOM_NINTS ? (int)DOM_INTS[k] : k == DOM_NINTS ? 7 : 10;
                MC_RUN(OP_PT, I(res), D(dbl[i]), D(dbl[j]));
            }
}
static U64Vec g_cells;
static int g_thin;
static void ph_cells(void *u) {
    for (size_t i = 0; i < g_cells.n; i++) {
        if (!mc_mine(i)) continue;
        if (mc_tick(7)) return;
        mc_states(1);
        MC_RUN(OP_CELL, H(g_cells.v[i]), I(g_thin));
    }
}
// cells with an exactly east-west / north-south boundary edge (bit-identical latitudes or longitudes of consecutive vertices), found by the
// directed search of dom_axis at resolutions 12..15; each worker searches its own share of start cells and probes what it finds
static void ph_axis(void *u) {
    for (int r = 15; r >= 12; r--) {
        U64Vec v = {0};
        dom_axis(r, r == 15 ? (mc_thorough ? 3000 : 400) : (mc_thorough ? 6000 : 600), mc_wid, mc_nw, &v);
        for (size_t i = 0; i < v.n; i++) {
            if (mc_tick(7)) return;
            mc_states(1);
            mc_ctr(7, 1);
            MC_RUN(OP_CELL, H(v.v[i]), I(1));
        }
        uv_free(&v);
    }
}
// cells within `rings` geometric steps of the cell containing each face centre, at resolution r
static void dom_face(int r, int rings, U64Vec *out) {
    for (int f = 0; f < g_nfaces; f++) {
        uint64_t h;
        if (latLngToCell(&g_facecentres[f], r, &h)) continue;
        U64Vec s = {0};
        uv_push(&s, h);
        for (int k = 0; k < rings; k++) dom_close1(&s);
        for (size_t i = 0; i < s.n; i++) uv_push(out, s.v[i]);
        uv_free(&s);
    }
}
int main(int argc, char **argv) {
    mc_init(argc, argv);
    build_special();
    if (g_nfaces != 20) {
        fprintf(stderr, "HARNESS ERROR: derived %d icosahedron faces\n", g_nfaces);
        return 2;
    }
    int fullmax = mc_thorough ? 4 : 3;
    snprintf(mc_bounds, sizeof mc_bounds,
             "full lattice on FULL(0..%d); %s lattice on FINE level %d (not neighbour-closed) and on 2 rings around the 20 face centres at all 16 resolutions%s; %d "
             "special points x 16 res x 8 directions x 10^0..-16; DBLS^2 x INTS argument classes",
             fullmax, mc_thorough ? "full" : "thinned (odd k)", mc_thorough ? 1 : 2, mc_thorough ? "; thinned lattice on FULL(5)" : "", g_nspecial);
    mc_phase("argument classes", ph_args, NULL);
    mc_phase("special points", ph_special, NULL);
    for (int r = 0; r <= fullmax; r++) dom_full(r, &g_cells);
    g_thin = 0;
    mc_phase("lattice on complete resolutions", ph_cells, NULL);
    mc_phase("lattice on cells with an exactly axis-parallel edge (res 12-15, directed search)", ph_axis, NULL);
    if (mc_thorough) {
        g_cells.n = 0;
        dom_full(5, &g_cells);
        g_thin = 1;
        mc_phase("thinned lattice on FULL(5)", ph_cells, NULL);
    }
    // the largest family last, so that a deadline cuts only it short
    g_cells.n = 0;
    for (int r = 0; r <= 15; r++) {
        dom_fine_raw(r, mc_thorough ? 1 : 2, &g_cells);
        dom_face(r, 2, &g_cells);
    }
    uv_sortuniq(&g_cells);
    g_thin = !mc_thorough;
    mc_phase("lattice on fine families", ph_cells, NULL);
    return mc_finish();
}
