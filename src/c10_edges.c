// BUILD: variant=opt
// C10 -- directed edges encode exactly the neighbour pairs and their shared boundary.
#include "mc.h"
#include "dom.h"

const char *MC_PROPERTY = "C10";
const char *MC_RULE =
    "cell(a): for every geometric neighbour b of a: cellsToDirectedEdge(a,b) succeeds, the index is accepted by isValidDirectedEdge, "
    "has mode 2 over origin a, getDirectedEdgeOrigin/Destination and directedEdgeToCells decode to (a,b); originToDirectedEdges(a) as "
    "a set equals these edges (one null slot on a pentagon); directedEdgeToBoundary(a->b) equals the stretch of a's boundary shared "
    "with b in a's order (2 or 3 points, 1e-12 rad) and is the reverse of b->a; edgeLengthRads equals the sum of chart distances "
    "(1e-9 rel), Km/M scalings (1e-14). far(a): every b at BFS distance 0,2,3 yields E_NOT_NEIGHBORS, and so do the parent, the children and the centre grandchild of every cell within distance 3 (both argument orders). cand(x): all 16 modes x 8 "
    "reserved values x high bit over x: isValidDirectedEdge iff mode 2, high 0, direction 1..6, spec-valid origin, not direction 1 on "
    "a pentagon. Non-trivial: pentagon, pentagon neighbour, 3-point stretch (icosahedron edge crossing), or candidate accepted.";
const char *MC_ASSUME[] = {"G_geo and shared stretches from src/geo.h (judged by C08)", "Earth radius 6371.007180918475 km", NULL};
const char *MC_CTR_NAMES[] = {"oracle_unavailable", "edges_checked", "three_point_edges", "non_neighbour_pairs", "candidates", "candidates_valid", NULL};
const char *MC_MAX_NAMES[] = {"edge_boundary_gap_rad", "edge_length_rel_diff", "unit_scaling_rel_diff", NULL};
#define R_KM 6371.007180918475
#define CANARY 0xC0FFEE0DDEADBEEFull

static void op_cell(const McArg *a) {
    uint64_t h = a[0].u;
    CellGeom g;
    if (cellgeom(h, &g, 1e-12) < 0 || g.nn != (spec_is_pentagon(h) ? 5 : 6)) {
        mc_ctr(0, 1);
        return;
    }
    int pent = spec_is_pentagon(h), nv = g.cb.numVerts;
    if (pent) mc_nontrivial();
    uint64_t mine[6];
    for (int k = 0; k < g.nn; k++) {
        uint64_t b = g.nb[k], e = CANARY, o = 0, d = 0, od[2] = {0, 0};
        if (spec_is_pentagon(b)) mc_nontrivial();
        if (g.cnt[k] < 2 || g.cnt[k] > 3 || g.start[k] < 0) {
            mc_ctr(0, 1);
            return;
        }
        mc_trans(9);
        mc_ctr(1, 1);
        H3Error er = cellsToDirectedEdge(h, b, &e);
        MC_CHECK(er == 0, "cellsToDirectedEdge(%" PRIx64 ",%" PRIx64 ") returned %d for geometric neighbours", h, b, er);
        MC_CHECK(isValidDirectedEdge(e), "cellsToDirectedEdge(%" PRIx64 ",%" PRIx64 ") = %" PRIx64 " is rejected by isValidDirectedEdge", h, b, e);
        int dir = spec_reserved(e);
        uint64_t asCell = (e & ~((uint64_t)15 << 59) & ~((uint64_t)7 << 56)) | ((uint64_t)1 << 59);
        MC_CHECK(spec_mode(e) == 2 && !spec_high(e) && dir >= 1 && dir <= 6 && asCell == h, "edge index %" PRIx64 " for %" PRIx64 "->%" PRIx64 " is not mode 2 / direction 1..6 over the origin", e, h, b);
        MC_CHECK(getDirectedEdgeOrigin(e, &o) == 0 && o == h, "getDirectedEdgeOrigin(%" PRIx64 ") = %" PRIx64 ", expected %" PRIx64, e, o, h);
        MC_CHECK(getDirectedEdgeDestination(e, &d) == 0 && d == b, "getDirectedEdgeDestination(%" PRIx64 ") = %" PRIx64 ", expected %" PRIx64, e, d, b);
        MC_CHECK(directedEdgeToCells(e, od) == 0 && od[0] == h && od[1] == b, "directedEdgeToCells(%" PRIx64 ") = %" PRIx64 ",%" PRIx64, e, od[0], od[1]);
        mine[k] = e;
        for (int j = 0; j < k; j++) MC_CHECK(mine[j] != e, "two neighbours of %" PRIx64 " map to the same edge %" PRIx64, h, e);
        CellBoundary eb;
        er = directedEdgeToBoundary(e, &eb);
        MC_CHECK(er == 0, "directedEdgeToBoundary(%" PRIx64 ") returned %d", e, er);
        MC_CHECK(eb.numVerts == g.cnt[k], "directedEdgeToBoundary(%" PRIx64 ") has %d points; %" PRIx64 " and %" PRIx64 " share %d boundary vertices", e, eb.numVerts, h, b, g.cnt[k]);
        if (eb.numVerts == 3) mc_ctr(2, 1), mc_nontrivial();
        double len = 0;
        for (int t = 0; t < eb.numVerts; t++) {
            double dd = adist(eb.verts[t], g.cb.verts[(g.start[k] + t) % nv]);
            mc_max(0, dd);
            MC_CHECK(dd <= 1e-12, "directedEdgeToBoundary(%" PRIx64 ") point %d is %.3g rad from vertex %d of %" PRIx64 " (shared stretch with %" PRIx64 ")", e, t, dd, (g.start[k] + t) % nv, h, b);
            if (t) len += adist(eb.verts[t - 1], eb.verts[t]);
        }
        // reverse edge
        uint64_t re;
        CellBoundary rb;
        MC_CHECK(cellsToDirectedEdge(b, h, &re) == 0 && directedEdgeToBoundary(re, &rb) == 0, "reverse edge %" PRIx64 "->%" PRIx64 " failed", b, h);
        MC_CHECK(rb.numVerts == eb.numVerts, "edges %" PRIx64 " and %" PRIx64 " (reverse) have %d and %d boundary points", e, re, eb.numVerts, rb.numVerts);
        for (int t = 0; t < eb.numVerts; t++) {
            double dd = adist(eb.verts[t], rb.verts[eb.numVerts - 1 - t]);
            mc_max(0, dd);
            MC_CHECK(dd <= 1e-12, "boundary of %" PRIx64 " is not the reverse of boundary of %" PRIx64 " (point %d off by %.3g rad)", e, re, t, dd);
        }
        double lr = -1, lk = -1, lm = -1;
        MC_CHECK(edgeLengthRads(e, &lr) == 0 && edgeLengthKm(e, &lk) == 0 && edgeLengthM(e, &lm) == 0, "edgeLength*(%" PRIx64 ") failed", e);
        double rel = fabs(lr - len) / len;
        mc_max(1, rel);
        MC_CHECK(rel <= 1e-9, "edgeLengthRads(%" PRIx64 ") = %.17g, great-circle length of its boundary is %.17g", e, lr, len);
        double s = fmax(fabs(lk - lr * R_KM) / (lr * R_KM), fabs(lm - lr * R_KM * 1000) / (lr * R_KM * 1000));
        mc_max(2, s);
        MC_CHECK(s <= 1e-14, "edgeLengthKm/M(%" PRIx64 ") = %.17g/%.17g are not rads %.17g scaled by R", e, lk, lm, lr);
    }
    uint64_t all[8];
    for (int i = 0; i < 8; i++) all[i] = CANARY;
    MC_CHECK(originToDirectedEdges(h, all + 1) == 0 && all[0] == CANARY && all[7] == CANARY, "originToDirectedEdges(%" PRIx64 ") failed or overran", h);
    int nnull = 0;
    for (int i = 1; i <= 6; i++) {
        if (!all[i]) {
            nnull++;
            continue;
        }
        int f = 0;
        for (int k = 0; k < g.nn; k++) f += mine[k] == all[i];
        MC_CHECK(f == 1, "originToDirectedEdges(%" PRIx64 ") lists %" PRIx64 " which is not an edge to one of its neighbours", h, all[i]);
        for (int j = 1; j < i; j++) MC_CHECK(all[j] != all[i], "originToDirectedEdges(%" PRIx64 ") lists %" PRIx64 " twice", h, all[i]);
    }
    MC_CHECK(nnull == (pent ? 1 : 0), "originToDirectedEdges(%" PRIx64 ") has %d null slots", h, nnull);
}
static OGraph G;
static int G_init;
static void op_far(const McArg *a) {
    uint64_t h = a[0].u;
    static uint64_t bc[64];
    static int bd[64];
    if (!G_init) og_init(&G, 1 << 16), G_init = 1;
    if (G.n > 2000000) og_clear(&G);
    int n = og_ball(&G, h, 3, bc, bd, 64);
    if (n < 0) {
        mc_ctr(0, 1);
        return;
    }
    for (int i = 0; i < n; i++) {
        if (spec_is_pentagon(bc[i])) mc_nontrivial();
        if (bd[i] == 1) continue;
        uint64_t e = CANARY;
        mc_trans(1);
        mc_ctr(3, 1);
        H3Error er = cellsToDirectedEdge(h, bc[i], &e);
        MC_CHECK(er == E_NOT_NEIGHBORS, "cellsToDirectedEdge(%" PRIx64 ",%" PRIx64 ") returned %d (edge %" PRIx64 ") for cells %d steps apart; expected E_NOT_NEIGHBORS", h, bc[i], er, e, bd[i]);
    }
    // valid cells of another resolution are never neighbours: the parent, every child and the centre grandchild of every cell of the
    // ball (the origin itself and its neighbours included), in both argument orders
    for (int i = 0; i < n; i++) {
        uint64_t b = bc[i], other[10];
        int r = (int)((b >> 52) & 15), no = 0;
        if (r > 0) other[no++] = (b & ~((uint64_t)15 << 52)) | ((uint64_t)(r - 1) << 52) | ((uint64_t)7 << (3 * (15 - r)));
        if (r < 15)
            for (int d = 0; d < 7; d++) {
                if (d == 1 && spec_is_pentagon(b)) continue;
                other[no++] = (b & ~((uint64_t)15 << 52) & ~((uint64_t)7 << (3 * (14 - r)))) | ((uint64_t)(r + 1) << 52) | ((uint64_t)d << (3 * (14 - r)));
            }
        if (r < 14) other[no++] = (b & ~((uint64_t)15 << 52) & ~((uint64_t)63 << (3 * (13 - r)))) | ((uint64_t)(r + 2) << 52);
        for (int k = 0; k < no; k++)
            for (int dir = 0; dir < 2; dir++) {
                uint64_t x = dir ? other[k] : h, y = dir ? h : other[k], e = CANARY;
                mc_trans(1);
                mc_ctr(3, 1);
                H3Error er = cellsToDirectedEdge(x, y, &e);
                MC_CHECK(isValidCell(other[k]), "harness: %" PRIx64 " is not a cell", other[k]);
                MC_CHECK(er == E_NOT_NEIGHBORS, "cellsToDirectedEdge(%" PRIx64 ",%" PRIx64 ") returned %d (edge %" PRIx64 ") for valid cells of different resolutions; expected E_NOT_NEIGHBORS", x, y, er, e);
            }
    }
}
static void op_cand(const McArg *a) {
    uint64_t x = a[0].u & ~((uint64_t)0xff << 56);
    for (int hi = 0; hi < 2; hi++)
        for (int m = 0; m < 16; m++)
            for (int rv = 0; rv < 8; rv++) {
                uint64_t e = x | ((uint64_t)hi << 63) | ((uint64_t)m << 59) | ((uint64_t)rv << 56);
                uint64_t cell = x | ((uint64_t)1 << 59);
                int want = !hi && m == 2 && rv >= 1 && rv <= 6 && spec_valid(cell) && !(spec_is_pentagon(cell) && rv == 1);
                mc_trans(1);
                mc_ctr(4, 1);
                int got = isValidDirectedEdge(e) ? 1 : 0;
                if (want) mc_ctr(5, 1), mc_nontrivial();
                MC_CHECK(got == want, "isValidDirectedEdge(%" PRIx64 ") = %d, expected %d (mode %d, direction %d, origin %s)", e, got, want, m, rv, spec_valid(cell) ? "valid" : "invalid");
            }
}
enum { OP_CELL, OP_FAR, OP_CAND };
const McOp MC_OPS[] = {{"cell", "h", op_cell}, {"far", "h", op_far}, {"cand", "h", op_cand}};
const int MC_NOPS = 3;

static U64Vec g_dom, g_cand;
static void ph_cells(void *u) {
    size_t lo = g_dom.n * mc_wid / mc_nw, hi = g_dom.n * (mc_wid + 1) / mc_nw;
    for (size_t i = lo; i < hi; i++) {
        if (mc_tick(63)) return;
        mc_states(1);
        MC_RUN(OP_CELL, H(g_dom.v[i]));
        MC_RUN(OP_FAR, H(g_dom.v[i]));
    }
}
static void ph_cand(void *u) {
    for (size_t i = 0; i < g_cand.n; i++) {
        if (!mc_mine(i)) continue;
        if (mc_tick(1023)) return;
        MC_RUN(OP_CAND, H(g_cand.v[i]));
    }
}
int main(int argc, char **argv) {
    mc_init(argc, argv);
    int fullmax = mc_thorough ? 5 : 4;
    snprintf(mc_bounds, sizeof mc_bounds, "FULL(0..%d); FINE level %d + EDGE(%d points per icosahedron edge) at resolutions %d..15; candidates: FULL(0..2) and IDX(%s) x 256 header values",
             fullmax, mc_thorough ? 0 : 1, mc_thorough ? 4000 : 600, fullmax + 1, mc_thorough ? "large" : "small");
    for (int r = 0; r <= 2; r++) dom_full(r, &g_cand);
    dom_idx(mc_thorough, &g_cand);
    for (size_t i = 0; i < g_cand.n; i++) g_cand.v[i] &= ~((uint64_t)0xff << 56);
    uv_sortuniq(&g_cand);
    mc_phase("candidate edge indexes", ph_cand, NULL);
    for (int r = 0; r <= fullmax; r++) dom_full(r, &g_dom);
    mc_phase("complete resolutions", ph_cells, NULL);
    g_dom.n = 0;
    for (int r = fullmax + 1; r <= 15; r++) {
        dom_fine_raw(r, mc_thorough ? 0 : 1, &g_dom);
        dom_edge(r, mc_thorough ? 4000 : 600, 1, &g_dom);
    }
    uv_sortuniq(&g_dom);
    mc_phase("fine families", ph_cells, NULL);
    return mc_finish();
}
