// BUILD: variant=opt
// C13 -- cellToChildPos / childPosToCell are inverse bijections in child order.
#include "mc.h"
#include "dom.h"

const char *MC_PROPERTY = "C13";
const char *MC_RULE =
    "all(parent, c): every position 0..size-1, childPosToCell(i) == i-th element of the spec odometer and of cellToChildren, "
    "cellToChildPos(child) == i; pos(parent, c, position): structured positions for non-enumerable depths (0, 1, w-1, w, w+1 "
    "for every pentagon width w, k*7^j-1, k*7^j, k*7^j+1, size-1) judged by rank-by-counting; child(x): cellToChildPos at every "
    "parent resolution == spec rank, childPosToCell inverts it; leave(parent, c, L, d, tail): children whose path leaves the "
    "pentagon centre chain at level L with digit d; err(parent): out-of-range positions/resolutions. Non-trivial: pentagon "
    "parent or ancestor chain, depth >= 2, or error case.";
const char *MC_ASSUME[] = {"spec_rank (count of lexicographically smaller valid digit strings) cross-checked against the odometer at start-up", NULL};
const char *MC_CTR_NAMES[] = {"positions_checked", "pentagon_parent_cases", "error_cases", NULL};
const char *MC_MAX_NAMES[] = {NULL};
#define CANARY 0xC0FFEE0DDEADBEEFull

static void check_pos(uint64_t h, int c, int64_t pos) {
    int res = spec_res(h);
    uint64_t x = CANARY;
    mc_trans(2);
    H3Error e = childPosToCell(pos, h, c, &x);
    MC_CHECK(e == 0, "childPosToCell(%" PRId64 ",%" PRIx64 ",%d) returned %d", pos, h, c, e);
    MC_CHECK(spec_valid(x) && spec_res(x) == c && spec_parent(x, res) == h,
             "childPosToCell(%" PRId64 ",%" PRIx64 ",%d) = %" PRIx64 " is not a valid res-%d descendant", pos, h, c, x, c);
    int64_t rk = spec_rank(x, res);
    MC_CHECK(rk == pos, "childPosToCell(%" PRId64 ",%" PRIx64 ",%d) = %" PRIx64 " which is child number %" PRId64, pos, h, c, x, rk);
    int64_t back = -7;
    e = cellToChildPos(x, res, &back);
    MC_CHECK(e == 0 && back == pos, "cellToChildPos(%" PRIx64 ",%d) = %d,%" PRId64 " expected %" PRId64, x, res, e, back, pos);
    mc_ctr(0, 1);
}
static void op_all(const McArg *a) {
    uint64_t h = a[0].u;
    int c = (int)a[1].i, res = spec_res(h);
    if (spec_is_pentagon(h)) mc_ctr(1, 1);
    if (spec_is_pent_bc(spec_bc(h)) || c - res >= 2) mc_nontrivial();
    int64_t n = spec_children_count(h, c - res), i = 0;
    uint64_t *kids = malloc((n + 1) * 8);
    kids[n] = CANARY;
    MC_CHECK(cellToChildren(h, c, kids) == 0 && kids[n] == CANARY, "cellToChildren(%" PRIx64 ",%d) failed/overran", h, c);
    SpecChildIt it;
    for (spec_child_first(&it, h, c); !it.done; spec_child_next(&it), i++) {
        uint64_t x = CANARY;
        H3Error e = childPosToCell(i, h, c, &x);
        if (e || x != it.h || (i < n && kids[i] != x)) {
            mc_fail("childPosToCell(%" PRId64 ",%" PRIx64 ",%d) = %d,%" PRIx64 "; spec child %" PRIx64 ", cellToChildren[%" PRId64
                    "] = %" PRIx64, i, h, c, e, x, it.h, i, i < n ? kids[i] : 0);
            break;
        }
        int64_t back = -7;
        e = cellToChildPos(x, res, &back);
        if (e || back != i) {
            mc_fail("cellToChildPos(%" PRIx64 ",%d) = %d,%" PRId64 " expected %" PRId64, x, res, e, back, i);
            break;
        }
    }
    free(kids);
    mc_trans(2 * i + 1);
    mc_ctr(0, i);
    if (!mc_w->cur_failed) MC_CHECK(i == n, "odometer %" PRId64 " != closed form %" PRId64, i, n);
}
static void op_pos(const McArg *a) {
    if (spec_is_pent_bc(spec_bc(a[0].u))) mc_nontrivial();
    if (spec_is_pentagon(a[0].u)) mc_ctr(1, 1);
    check_pos(a[0].u, (int)a[1].i, a[2].i);
}
static void op_child(const McArg *a) {
    uint64_t x = a[0].u;
    int c = spec_res(x);
    if (spec_is_pent_bc(spec_bc(x))) mc_nontrivial();
    for (int p = 0; p <= c; p++) {
        int64_t pos = -7, want = spec_rank(x, p);
        mc_trans(2);
        H3Error e = cellToChildPos(x, p, &pos);
        MC_CHECK(e == 0 && pos == want, "cellToChildPos(%" PRIx64 ",%d) = %d,%" PRId64 " expected %" PRId64, x, p, e, pos, want);
        uint64_t back = CANARY;
        e = childPosToCell(pos, spec_parent(x, p), c, &back);
        MC_CHECK(e == 0 && back == x, "childPosToCell(%" PRId64 ",%" PRIx64 ",%d) = %d,%" PRIx64 " expected %" PRIx64, pos,
                 spec_parent(x, p), c, e, back, x);
        mc_ctr(0, 1);
    }
}
// child of pentagon-chain parent leaving the centre chain at level L with digit d, tail pattern t
static void op_leave(const McArg *a) {
    uint64_t h = a[0].u;
    int c = (int)a[1].i, L = (int)a[2].i, d = (int)a[3].i, t = (int)a[4].i, res = spec_res(h);
    uint64_t x = (h & ~((uint64_t)15 << 52)) | ((uint64_t)c << 52);
    for (int r = res + 1; r <= c; r++) {
        int dg = r < L ? 0 : r == L ? d : t == 0 ? 0 : t == 1 ? 6 : ((r - L) % 2 ? 0 : 6);
        x = spec_set_digit(x, r, dg);
    }
    if (!spec_valid(x)) return;
    mc_nontrivial();
    McArg b[1] = {H(x)};
    op_child(b);
}
static void op_err(const McArg *a) {
    uint64_t h = a[0].u;
    int res = spec_res(h);
    mc_nontrivial();
    mc_ctr(2, 1);
    for (int c = res; c <= 15; c += (c - res < 3 ? 1 : 4)) {
        int64_t n = spec_children_count(h, c - res);
        int64_t bad[] = {-1, n, n + 1, INT64_MAX, INT64_MIN, -n};
        for (int k = 0; k < 6; k++) {
            uint64_t x = CANARY;
            mc_trans(1);
            H3Error e = childPosToCell(bad[k], h, c, &x);
            MC_CHECK(e == E_DOMAIN, "childPosToCell(%" PRId64 ",%" PRIx64 ",%d) returned %d, expected E_DOMAIN", bad[k], h, c, e);
        }
    }
    for (int k = 0; k < DOM_NINTS + 16; k++) {
        int r = k < DOM_NINTS ? (int)DOM_INTS[k] : k - DOM_NINTS;
        uint64_t x = CANARY;
        int64_t pos = 0x7777;
        mc_trans(2);
        H3Error e = childPosToCell(0, h, r, &x);
        int want = (r < 0 || r > 15) ? E_RES_DOMAIN : r < res ? E_RES_MISMATCH : 0;
        MC_CHECK((int)e == want, "childPosToCell(0,%" PRIx64 ",%d) returned %d, expected %d", h, r, e, want);
        e = cellToChildPos(h, r, &pos);
        want = (r < 0 || r > 15) ? E_RES_DOMAIN : r > res ? E_RES_MISMATCH : 0;
        MC_CHECK((int)e == want, "cellToChildPos(%" PRIx64 ",%d) returned %d, expected %d", h, r, e, want);
    }
}
// kids(parent, c): the property's own tie to cellToChildren: position i is the i-th element of cellToChildren(parent, c), for every i; the
// list is requested with exactly cellToChildrenSize slots plus a canary
static void op_kids(const McArg *a) {
    uint64_t p = a[0].u;
    int c = (int)a[1].i;
    int64_t n = -1;
    mc_trans(2);
    MC_CHECK(cellToChildrenSize(p, c, &n) == 0 && n == spec_children_count(p, c - spec_res(p)), "cellToChildrenSize(%" PRIx64 ",%d) = %" PRId64, p, c, n);
    uint64_t *L = calloc(n + 1, 8);
    L[n] = 0xC0FFEE0DDEADBEEFull;
    H3Error e = cellToChildren(p, c, L);
    if (e || L[n] != 0xC0FFEE0DDEADBEEFull) {
        mc_fail("cellToChildren(%" PRIx64 ",%d) returned %d%s", p, c, e, L[n] != 0xC0FFEE0DDEADBEEFull ? " and wrote beyond cellToChildrenSize slots" : "");
        free(L);
        return;
    }
    if (spec_is_pentagon(p)) mc_nontrivial();
    for (int64_t i = 0; i < n; i++) {
        uint64_t x = 0;
        int64_t back = -1;
        mc_trans(2);
        H3Error e1 = childPosToCell(i, p, c, &x);
        if (e1 || x != L[i]) {
            mc_fail("childPosToCell(%" PRId64 ",%" PRIx64 ",%d) = %d,%" PRIx64 " but element %" PRId64 " of cellToChildren is %" PRIx64, i, p, c, e1, x, i, L[i]);
            break;
        }
        H3Error e2 = cellToChildPos(L[i], spec_res(p), &back);
        if (e2 || back != i) {
            mc_fail("cellToChildPos(%" PRIx64 ",%d) = %d,%" PRId64 " but the cell is element %" PRId64 " of cellToChildren(%" PRIx64 ",%d)", L[i], spec_res(p), e2, back, i, p, c);
            break;
        }
    }
    free(L);
    mc_states(n);
}
enum { OP_ALL, OP_POS, OP_CHILD, OP_LEAVE, OP_ERR, OP_KIDS };
const McOp MC_OPS[] = {{"all", "hi", op_all}, {"pos", "hii", op_pos}, {"child", "h", op_child}, {"leave", "hiiii", op_leave}, {"err", "h", op_err}, {"kids", "hi", op_kids}};
const int MC_NOPS = 6;

static U64Vec g_full, g_fine;
static int g_fulldepth, g_finedepth;
static void structured(uint64_t h, int c) {
    int res = spec_res(h), n = c - res;
    int64_t size = spec_children_count(h, n);
    int64_t cand[800];
    int k = 0;
    cand[k++] = 0, cand[k++] = 1, cand[k++] = size - 1, cand[k++] = size - 2, cand[k++] = size / 2;
    for (int j = 0; j <= n; j++) {
        int64_t w = 1 + 5 * (spec_ipow7(j) - 1) / 6, p7 = spec_ipow7(j);
        cand[k++] = w - 1, cand[k++] = w, cand[k++] = w + 1;
        for (int m = 1; m <= 6; m++) cand[k++] = m * p7 - 1, cand[k++] = m * p7, cand[k++] = m * p7 + 1, cand[k++] = w + m * p7, cand[k++] = w + m * p7 - 1;
    }
    for (int i = 0; i < k; i++)
        if (cand[i] >= 0 && cand[i] < size) MC_RUN(OP_POS, H(h), I(c), I(cand[i]));
}
static void ph_full(void *u) {
    for (size_t i = 0; i < g_full.n; i++) {
        if (!mc_mine(i)) continue;
        if (mc_tick(15)) return;
        uint64_t h = g_full.v[i];
        mc_states(1);
        for (int c = spec_res(h); c <= spec_res(h) + g_fulldepth && c <= 15; c++) MC_RUN(OP_ALL, H(h), I(c));
    }
}
// parents: all 12 pentagons and two hexagons (a pentagon's child, a plain one) at every resolution, every child resolution up to +6 (+7)
static void ph_kids(void *u) {
    uint64_t idx = 0;
    int dmax = mc_thorough ? 7 : 6;
    for (int r = 0; r <= 15; r++) {
        uint64_t pent[12];
        if (getPentagons(r, pent)) continue;
        for (int k = 0; k < 14; k++) {
            uint64_t p;
            if (k < 12)
                p = pent[k];
            else {
                int d[15] = {0};
                if (r == 0) continue;
                d[r - 1] = k == 12 ? 3 : 0;
                d[0] = k == 12 ? d[0] : 5;
                p = spec_mk(r, k == 12 ? 4 : 33, d);
                if (!spec_valid(p) || spec_is_pentagon(p)) continue;
            }
            for (int c = r; c <= r + dmax && c <= 15; c++, idx++) {
                if (!mc_mine(idx)) continue;
                if (mc_expired()) return;
                MC_RUN(OP_KIDS, H(p), I(c));
            }
        }
    }
}
static void ph_fine(void *u) {
    for (size_t i = 0; i < g_fine.n; i++) {
        if (!mc_mine(i)) continue;
        if (mc_tick(15)) return;
        uint64_t h = g_fine.v[i];
        int res = spec_res(h);
        mc_states(1);
        for (int c = res; c <= res + g_finedepth && c <= 15; c++) MC_RUN(OP_ALL, H(h), I(c));
        for (int c = res + g_finedepth + 1; c <= 15; c++) structured(h, c);
        MC_RUN(OP_CHILD, H(h));
        if (spec_is_pentagon(h) || i % 5 == 0) MC_RUN(OP_ERR, H(h));
        if (spec_is_pentagon(h))
            for (int c = res + 1; c <= 15; c++)
                for (int L = res + 1; L <= c; L++)
                    for (int d = 1; d <= 6; d++)
                        for (int t = 0; t < 3; t++) MC_RUN(OP_LEAVE, H(h), I(c), I(L), I(d), I(t));
    }
}
static int selfcheck(void) {
    int d[15] = {0, 0, 3};
    uint64_t ps[3] = {spec_mk(1, 4, d), spec_mk(2, 7, d), spec_mk(0, 58, d)};
    for (int k = 0; k < 3; k++) {
        SpecChildIt it;
        int64_t i = 0;
        for (spec_child_first(&it, ps[k], spec_res(ps[k]) + 4); !it.done; spec_child_next(&it), i++)
            if (spec_rank(it.h, spec_res(ps[k])) != i || !spec_valid(it.h)) return 0;
        if (i != spec_children_count(ps[k], 4)) return 0;
    }
    for (int r = 0; r <= 3; r++)
        for (int64_t i = 0; i < spec_numcells(r); i++)
            if (spec_cell_id(spec_cell_at(r, i)) != i) return 0;
    return 1;
}
int main(int argc, char **argv) {
    mc_init(argc, argv);
    if (!selfcheck()) {
        fprintf(stderr, "HARNESS ERROR: spec_rank disagrees with spec odometer\n");
        return 2;
    }
    int fullmax = mc_thorough ? 3 : 2;
    g_fulldepth = 5;
    g_finedepth = mc_thorough ? 5 : 4;
    for (int r = 0; r <= fullmax; r++) dom_full(r, &g_full);
    for (int r = 0; r <= 15; r++) dom_fine(r, mc_thorough ? 1 : 2, &g_fine);
    uv_sortuniq(&g_fine);
    snprintf(mc_bounds, sizeof mc_bounds,
             "parents FULL(0..%d) x child res up to +%d, every position; FINE level %d parents (%zu) x +%d every position, deeper: "
             "structured positions; pentagons: every leave level x digit x 3 tails up to res 15",
             fullmax, g_fulldepth, mc_thorough ? 1 : 2, g_fine.n, g_finedepth);
    mc_phase("full resolutions", ph_full, NULL);
    mc_phase("fine families", ph_fine, NULL);
    mc_phase("positions vs cellToChildren for pentagon and hexagon parents to depth 6 (7)", ph_kids, NULL);
    return mc_finish();
}
