// dgraph.h -- dense G_geo of a complete resolution in shared memory (ids = spec order), parallel build,
// symmetric/degree verification, array BFS. Needs mc.h, dom.h included before.
#ifndef DGRAPH_H
#define DGRAPH_H
typedef struct {
    int res, built;
    int64_t n;
    int32_t (*nbr)[6];
    int8_t *deg;    // -1 = oracle unavailable at this cell
    int64_t *nbad;  // shared counter
} DGraph;
static DGraph DG[6];
static void dg_alloc(int res) {
    DGraph *g = &DG[res];
    if (g->nbr) return;
    g->res = res;
    g->n = spec_numcells(res);
    g->nbr = mc_shalloc(g->n * sizeof(int32_t[6]));
    g->deg = mc_shalloc(g->n);
    g->nbad = mc_shalloc(8);
}
static void dg_build_range(DGraph *g, int64_t lo, int64_t hi) {
    for (int64_t i = lo; i < hi; i++) {
        uint64_t h = spec_cell_at(g->res, i), nb[8];
        int n = geo_nbrs(h, nb);
        int want = spec_is_pentagon(h) ? 5 : 6;
        if (n != want) {
            g->deg[i] = -1;
            continue;
        }
        g->deg[i] = (int8_t)n;
        for (int k = 0; k < n; k++) {
            if (!spec_valid(nb[k]) || spec_res(nb[k]) != g->res) {
                g->deg[i] = -1;
                break;
            }
            g->nbr[i][k] = (int32_t)spec_cell_id(nb[k]);
        }
    }
}
static void dg_verify_range(DGraph *g, int64_t lo, int64_t hi) {
    for (int64_t i = lo; i < hi; i++) {
        int bad = g->deg[i] < 0;
        for (int k = 0; k < g->deg[i] && !bad; k++) {
            int32_t j = g->nbr[i][k];
            int f = 0;
            if (g->deg[j] < 0) bad = 1;
            for (int m = 0; m < g->deg[j]; m++) f |= g->nbr[j][m] == i;
            if (!f) bad = 1;
        }
        if (bad) __sync_fetch_and_add(g->nbad, 1);
    }
}
static void dg_ph_build(void *u) {
    DGraph *g = u;
    dg_build_range(g, g->n * mc_wid / mc_nw, g->n * (mc_wid + 1) / mc_nw);
}
static void dg_ph_verify(void *u) {
    DGraph *g = u;
    dg_verify_range(g, g->n * mc_wid / mc_nw, g->n * (mc_wid + 1) / mc_nw);
}
// parallel build (call from main between phases)
static void dg_build_parallel(int res) {
    dg_alloc(res);
    DGraph *g = &DG[res];
    char nm[64];
    snprintf(nm, sizeof nm, "build G_geo(%d)", res);
    mc_phase(nm, dg_ph_build, g);
    snprintf(nm, sizeof nm, "verify G_geo(%d) symmetric, degree 6/5", res);
    mc_phase(nm, dg_ph_verify, g);
    g->built = 1;
}
// serial build on demand (replay)
static DGraph *dg_get(int res) {
    DGraph *g = &DG[res];
    if (!g->built) {
        dg_alloc(res);
        dg_build_range(g, 0, g->n);
        dg_verify_range(g, 0, g->n);
        g->built = 1;
    }
    return g;
}
// BFS from src over the whole graph; dist/queue are caller arrays of g->n int16/int32
static int64_t dg_bfs(const DGraph *g, int32_t src, int16_t *dist, int32_t *queue) {
    memset(dist, 0xff, sizeof(int16_t) * g->n);
    int64_t qh = 0, qt = 0;
    dist[src] = 0;
    queue[qt++] = src;
    while (qh < qt) {
        int32_t u = queue[qh++];
        for (int k = 0; k < g->deg[u]; k++) {
            int32_t v = g->nbr[u][k];
            if (dist[v] < 0) {
                dist[v] = dist[u] + 1;
                queue[qt++] = v;
            }
        }
    }
    return qt;
}
static int dg_adjacent(const DGraph *g, int32_t a, int32_t b) {
    for (int k = 0; k < g->deg[a]; k++)
        if (g->nbr[a][k] == b) return 1;
    return 0;
}
#endif
