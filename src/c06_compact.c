// BUILD: variant=opt
// C06 -- compactCells / uncompactCells are lossless, canonical and order-independent.
#include "mc.h"
#include "dom.h"

const char *MC_PROPERTY = "C06";
const char *MC_RULE =
    "Every case builds a set S of distinct valid cells of one resolution in a stated order and runs compactCells (canary after the n "
    "slots), compares the non-zero outputs as a set with the reference compaction (sort; repeatedly replace complete sibling groups of 7, "
    "or 6 under a pentagon, by the parent), then uncompactCellsSize == |S|, uncompactCells == S as a set, capacity |S|-1 gives "
    "E_MEMORY_BOUNDS with the canary intact, a target resolution coarser than an element gives E_RES_MISMATCH. sub(parent, mask, perm): "
    "every non-empty subset of a sibling group in EVERY permutation; two(gp, combo, order): each child of a grandparent in one of 5 states "
    "(absent, single 0-child, single last child, all-but-one, full) = 5^7 combinations x 6 orders; three(ggp, combo, order): the same one "
    "level deeper (states: absent, full sub-tree, sub-tree minus one cell, one full sibling group, single cell); tree(root, depth, missing, "
    "order): whole sub-tree minus one cell; disk(origin, k, order). Non-trivial: the reference output differs from the input (something "
    "compacts) or a pentagon family is involved.";
const char *MC_ASSUME[] = {"reference compaction in this file; cells built with the spec odometer", NULL};
const char *MC_CTR_NAMES[] = {"sets", "cells_in_sets", "sets_with_compaction", "largest_set", NULL};
const char *MC_MAX_NAMES[] = {"largest_set_cells", NULL};
#define CANARY 0xC0FFEE0DDEADBEEFull
enum { OP_SUB, OP_SUBS, OP_TWO, OP_THREE, OP_TREE, OP_DISK, OP_SIZE, OP_MIXED };

static int nkids(uint64_t p) { return spec_is_pentagon(p) ? 6 : 7; }
// reference compaction; out sorted; returns count
static int64_t ref_compact(const uint64_t *in, int64_t n, uint64_t *out) {
    uint64_t *cur = malloc((n + 1) * 8), *next = malloc((n + 1) * 8);
    memcpy(cur, in, n * 8);
    int64_t no = 0;
    while (n) {
        qsort(cur, n, 8, uv_cmp);
        int maxr = 0;
        for (int64_t i = 0; i < n; i++)
            if (spec_res(cur[i]) > maxr) maxr = spec_res(cur[i]);
        int64_t nn = 0;
        for (int64_t i = 0; i < n;) {
            if (spec_res(cur[i]) != maxr || maxr == 0) {
                out[no++] = cur[i++];
                continue;
            }
            uint64_t p = spec_parent(cur[i], maxr - 1);
            int64_t j = i;
            while (j < n && spec_res(cur[j]) == maxr && spec_parent(cur[j], maxr - 1) == p) j++;
            if (j - i == nkids(p))
                next[nn++] = p;
            else
                for (int64_t k = i; k < j; k++) out[no++] = cur[k];
            i = j;
        }
        uint64_t *t = cur;
        cur = next;
        next = t;
        n = nn;
    }
    free(cur);
    free(next);
    qsort(out, no, 8, uv_cmp);
    return no;
}
static void reorder(uint64_t *s, int64_t n, int order) {
    if (n < 2) return;
    uint64_t *t = malloc(n * 8);
    qsort(s, n, 8, uv_cmp);
    if (order == 1) {
        for (int64_t i = 0; i < n; i++) t[i] = s[n - 1 - i];
    } else if (order == 2) {
        int64_t k = 0;
        for (int64_t i = 0; i < n; i += 2) t[k++] = s[i];
        for (int64_t i = 1; i < n; i += 2) t[k++] = s[i];
    } else if (order >= 3) {
        int64_t rot = order == 3 ? 1 : order == 4 ? n / 4 : n / 2;
        for (int64_t i = 0; i < n; i++) t[i] = s[(i + rot) % n];
    } else
        memcpy(t, s, n * 8);
    memcpy(s, t, n * 8);
    free(t);
}
#define NORDERS 6
// the oracle for one set in its given order; sub-case key for failures
static int check_set(const uint64_t *set, int64_t n, int res, int opidx, int nargs, const McArg *args) {
    mc_ctr(0, 1);
    mc_ctr(1, n);
    mc_max(0, (double)n);
    mc_trans(4);
    uint64_t *out = calloc(n + 1, 8), *ref = malloc((n + 1) * 8), *un = NULL;
    int ok = 0;
    out[n] = CANARY;
    H3Error e = compactCells(set, out, n);
    if (out[n] != CANARY) {
        MC_FAIL_AS(opidx, nargs, args, "compactCells on %" PRId64 " cells wrote beyond its %" PRId64 " output slots", n, n);
        goto done;
    }
    if (e) {
        MC_FAIL_AS(opidx, nargs, args, "compactCells on %" PRId64 " distinct valid res-%d cells returned %d", n, res, e);
        goto done;
    }
    int64_t nr = ref_compact(set, n, ref), no = 0;
    for (int64_t i = 0; i < n; i++)
        if (out[i]) out[no++] = out[i];
    uint64_t *sorted = malloc((no + 1) * 8);
    memcpy(sorted, out, no * 8);
    qsort(sorted, no, 8, uv_cmp);
    int same = no == nr && memcmp(sorted, ref, nr * 8) == 0;
    if (!same) {
        // describe the first difference
        int64_t i = 0;
        while (i < no && i < nr && sorted[i] == ref[i]) i++;
        MC_FAIL_AS(opidx, nargs, args, "compactCells on %" PRId64 " cells returned %" PRId64 " cells, canonical compaction has %" PRId64 "; first difference: got %" PRIx64 ", expected %" PRIx64,
                   n, no, nr, i < no ? sorted[i] : 0, i < nr ? ref[i] : 0);
        free(sorted);
        goto done;
    }
    free(sorted);
    if (nr != n) mc_ctr(2, 1), mc_nontrivial();
    int64_t us = -1;
    e = uncompactCellsSize(out, no, res, &us);
    if (e || us != n) {
        MC_FAIL_AS(opidx, nargs, args, "uncompactCellsSize of the compacted set = %d,%" PRId64 ", expected %" PRId64, e, us, n);
        goto done;
    }
    un = calloc(n + 2, 8);
    un[n] = CANARY;
    e = uncompactCells(out, no, un, n, res);
    if (e || un[n] != CANARY) {
        MC_FAIL_AS(opidx, nargs, args, "uncompactCells returned %d%s", e, un[n] != CANARY ? " and wrote beyond the capacity" : "");
        goto done;
    }
    qsort(un, n, 8, uv_cmp);
    uint64_t *s2 = malloc(n * 8);
    memcpy(s2, set, n * 8);
    qsort(s2, n, 8, uv_cmp);
    int rt = memcmp(un, s2, n * 8) == 0;
    free(s2);
    if (!rt) {
        MC_FAIL_AS(opidx, nargs, args, "uncompactCells(compactCells(S)) differs from S (%" PRId64 " cells)", n);
        goto done;
    }
    if (n >= 1) {
        memset(un, 0, (n + 1) * 8);
        un[n - 1] = CANARY;
        e = uncompactCells(out, no, un, n - 1, res);
        if (e != E_MEMORY_BOUNDS || un[n - 1] != CANARY) {
            MC_FAIL_AS(opidx, nargs, args, "uncompactCells with capacity %" PRId64 " (one too small) returned %d%s", n - 1, e, un[n - 1] != CANARY ? " and wrote beyond the capacity" : "");
            goto done;
        }
    }
    // a target resolution coarser than some element
    int minr = 15;
    for (int64_t i = 0; i < no; i++)
        if (spec_res(out[i]) < minr) minr = spec_res(out[i]);
    int maxr2 = 0;
    for (int64_t i = 0; i < no; i++)
        if (spec_res(out[i]) > maxr2) maxr2 = spec_res(out[i]);
    if (maxr2 > 0) {
        e = uncompactCells(out, no, un, n, maxr2 - 1);
        int64_t dummy;
        H3Error e2 = uncompactCellsSize(out, no, maxr2 - 1, &dummy);
        if (e != E_RES_MISMATCH || e2 != E_RES_MISMATCH) {
            MC_FAIL_AS(opidx, nargs, args, "uncompactCells/Size to resolution %d, coarser than an element of resolution %d, returned %d/%d; expected E_RES_MISMATCH", maxr2 - 1, maxr2, e, e2);
            goto done;
        }
    }
    ok = 1;
done:
    free(out);
    free(ref);
    free(un);
    return ok;
}
static int kids_of(uint64_t p, uint64_t *k) {
    SpecChildIt it;
    int n = 0;
    for (spec_child_first(&it, p, spec_res(p) + 1); !it.done; spec_child_next(&it)) k[n++] = it.h;
    return n;
}
static int64_t desc_of(uint64_t p, int depth, uint64_t *k) {
    SpecChildIt it;
    int64_t n = 0;
    for (spec_child_first(&it, p, spec_res(p) + depth); !it.done; spec_child_next(&it)) k[n++] = it.h;
    return n;
}
// permutation #idx (factorial number system) of n items
static void nth_perm(uint64_t *a, int n, int64_t idx) {
    uint64_t pool[8], out[8];
    memcpy(pool, a, n * 8);
    int m = n;
    int64_t f = 1;
    for (int i = 2; i < n; i++) f *= i;  // (n-1)!
    for (int i = 0; i < n; i++) {
        int64_t q = idx / f;
        idx %= f;
        out[i] = pool[q];
        memmove(pool + q, pool + q + 1, (m - q - 1) * 8);
        m--;
        if (n - 1 - i > 0) f /= (n - 1 - i);
    }
    memcpy(a, out, n * 8);
}
static void op_sub(const McArg *a) {
    uint64_t kids[7], s[7];
    int nk = kids_of(a[0].u, kids), n = 0;
    for (int i = 0; i < nk; i++)
        if (a[1].i >> i & 1) s[n++] = kids[i];
    if (!n) return;
    nth_perm(s, n, a[2].i);
    if (spec_is_pentagon(a[0].u)) mc_nontrivial();
    check_set(s, n, spec_res(a[0].u) + 1, OP_SUB, 3, a);
}
static void op_subs(const McArg *a) {
    uint64_t kids[7];
    int nk = kids_of(a[0].u, kids), n = __builtin_popcountll(a[1].u & ((1 << nk) - 1));
    int64_t f = 1;
    for (int i = 2; i <= n; i++) f *= i;
    if (spec_is_pentagon(a[0].u)) mc_nontrivial();
    for (int64_t p = 0; p < f; p++) {
        uint64_t s[7];
        int m = 0;
        for (int i = 0; i < nk; i++)
            if (a[1].i >> i & 1) s[m++] = kids[i];
        nth_perm(s, m, p);
        McArg sub[3] = {a[0], a[1], I(p)};
        if (!check_set(s, m, spec_res(a[0].u) + 1, OP_SUB, 3, sub)) return;
    }
    mc_states(1);
}
static void op_two(const McArg *a) {
    uint64_t gp = a[0].u, ch[7], s[64];
    int64_t combo = a[1].i;
    int nc = kids_of(gp, ch), n = 0;
    for (int c = 0; c < nc; c++) {
        int st = combo % 5;
        combo /= 5;
        uint64_t g[7];
        int ng = kids_of(ch[c], g);
        for (int j = 0; j < ng; j++) {
            int keep = st == 4 || (st == 1 && j == 0) || (st == 2 && j == ng - 1) || (st == 3 && j != 3);
            if (keep) s[n++] = g[j];
        }
    }
    if (!n) return;
    if (spec_is_pent_bc(spec_bc(gp))) mc_nontrivial();
    reorder(s, n, (int)a[2].i);
    check_set(s, n, spec_res(gp) + 2, OP_TWO, 3, a);
}
static void op_three(const McArg *a) {
    uint64_t ggp = a[0].u, ch[7];
    static uint64_t s[400];
    int64_t combo = a[1].i;
    int nc = kids_of(ggp, ch), n = 0;
    for (int c = 0; c < nc; c++) {
        int st = combo % 5;
        combo /= 5;
        uint64_t d[49];
        int64_t nd = desc_of(ch[c], 2, d);
        for (int64_t j = 0; j < nd; j++) {
            int keep = st == 1 || (st == 2 && j != nd / 2) || (st == 3 && spec_parent(d[j], spec_res(ggp) + 2) == spec_parent(d[nd - 1], spec_res(ggp) + 2)) || (st == 4 && j == 0);
            if (keep) s[n++] = d[j];
        }
    }
    if (!n) return;
    if (spec_is_pent_bc(spec_bc(ggp))) mc_nontrivial();
    reorder(s, n, (int)a[2].i);
    check_set(s, n, spec_res(ggp) + 3, OP_THREE, 3, a);
}
static void op_tree(const McArg *a) {
    uint64_t root = a[0].u;
    int depth = (int)a[1].i;
    int64_t missing = a[2].i;
    int64_t cap = spec_children_count(root, depth);
    uint64_t *s = malloc((cap + 1) * 8);
    int64_t n = desc_of(root, depth, s);
    if (missing >= 0 && missing < n) {
        memmove(s + missing, s + missing + 1, (n - missing - 1) * 8);
        n--;
    }
    if (n) {
        mc_nontrivial();
        reorder(s, n, (int)a[3].i);
        check_set(s, n, spec_res(root) + depth, OP_TREE, 4, a);
    }
    free(s);
}
// disk: children at depth `depth` of every cell of gridDisk(origin,k) (spec neighbours are not needed: the disk only
// supplies a blob of cells; its correctness is C05's)
static void op_disk(const McArg *a) {
    uint64_t origin = a[0].u;
    int k = (int)a[1].i, depth = (int)a[2].i;
    int64_t slots = 3 * k * (k + 1) + 1;
    uint64_t *d = calloc(slots, 8);
    if (gridDisk(origin, k, d) == 0) {
        U64Vec s = {0};
        for (int64_t i = 0; i < slots; i++)
            if (d[i] && spec_valid(d[i])) {
                SpecChildIt it;
                for (spec_child_first(&it, d[i], spec_res(d[i]) + depth); !it.done; spec_child_next(&it)) uv_push(&s, it.h);
            }
        uv_sortuniq(&s);
        if (s.n) {
            reorder(s.v, s.n, (int)a[3].i);
            check_set(s.v, s.n, spec_res(origin) + depth, OP_DISK, 4, a);
        }
        uv_free(&s);
    }
    free(d);
}
// size(a, b): the already compact set {a, b} (two cells of one resolution, neither an ancestor of the other) at every target resolution:
// uncompactCellsSize must equal the number of descendants (closed form, 7^n / 1+5(7^n-1)/6) at EVERY depth 0..15-res, in both orders,
// with and without a zero slot in between; where the set is small enough the cells themselves are compared too
static void op_size(const McArg *a) {
    uint64_t x = a[0].u, y = a[1].u;
    int r = spec_res(x);
    if (spec_res(y) != r || x == y) return;
    if (spec_is_pentagon(x) != spec_is_pentagon(y)) mc_nontrivial();
    for (int t = r; t <= 15; t++) {
        int64_t want = spec_children_count(x, t - r) + spec_children_count(y, t - r);
        uint64_t sets[3][3] = {{x, y, 0}, {y, x, 0}, {x, 0, y}};
        int ns[3] = {2, 2, 3};
        for (int v = 0; v < 3; v++) {
            int64_t got = -7;
            mc_trans(1);
            H3Error e = uncompactCellsSize(sets[v], ns[v], t, &got);
            MC_CHECK(e == 0 && got == want, "uncompactCellsSize({%" PRIx64 ",%" PRIx64 "} variant %d, res %d) = %d, %" PRId64 "; the set has %" PRId64 " descendants", sets[v][0], sets[v][1] ? sets[v][1] : sets[v][2], v, t, e, got, want);
        }
        if (want <= 40000) {
            uint64_t *out = calloc(want + 1, 8);
            out[want] = CANARY;
            mc_trans(1);
            H3Error e = uncompactCells(sets[0], 2, out, want, t);
            int ok = e == 0 && out[want] == CANARY;
            int64_t i = 0;
            SpecChildIt it;
            for (spec_child_first(&it, x, t); ok && !it.done; spec_child_next(&it), i++) ok = out[i] == it.h;
            for (spec_child_first(&it, y, t); ok && !it.done; spec_child_next(&it), i++) ok = out[i] == it.h;
            free(out);
            MC_CHECK(ok, "uncompactCells({%" PRIx64 ",%" PRIx64 "}, res %d) returned %d or cells that are not the descendants in order", x, y, t, e);
        }
    }
}
// mixed(root, t): compact sets mixing resolutions (cells of root's sub-tree at res r, r+1, r+2, r+3, none an ancestor of another), in
// every order (24 permutations of 4 elements + zero slots), uncompacted to target t: if t is coarser than ANY element the answer is
// E_RES_MISMATCH from both functions, wherever that element stands; otherwise the size is the closed-form sum and the cells are exact
static void op_mixed(const McArg *a) {
    uint64_t root = a[0].u;
    int r = spec_res(root), t = (int)a[1].i;
    if (r + 3 > 15) return;
    // children 2,3,4 of root; under child 2 go two levels down, under child 3 one level, child 4 itself, plus child 5's child
    uint64_t c2 = spec_set_digit(root + ((uint64_t)1 << 52), r + 1, 2), c3 = spec_set_digit(root + ((uint64_t)1 << 52), r + 1, 3), c4 = spec_set_digit(root + ((uint64_t)1 << 52), r + 1, 4);
    uint64_t e[4];
    e[0] = c4;                                                                            // res r+1
    e[1] = spec_set_digit(c3 + ((uint64_t)1 << 52), r + 2, 5);                              // res r+2
    e[2] = spec_set_digit(spec_set_digit(c2 + ((uint64_t)2 << 52), r + 2, 6), r + 3, 2);    // res r+3
    e[3] = spec_set_digit(c2 + ((uint64_t)1 << 52), r + 2, 3);                              // res r+2
    for (int i = 0; i < 4; i++)
        if (!spec_valid(e[i])) return;
    mc_nontrivial();
    int finest = r + 3;
    int64_t want = 0;
    for (int i = 0; i < 4; i++) want += t >= spec_res(e[i]) ? spec_children_count(e[i], t - spec_res(e[i])) : 0;
    static const int P[24][4] = {{0,1,2,3},{0,1,3,2},{0,2,1,3},{0,2,3,1},{0,3,1,2},{0,3,2,1},{1,0,2,3},{1,0,3,2},{1,2,0,3},{1,2,3,0},{1,3,0,2},{1,3,2,0},
                                 {2,0,1,3},{2,0,3,1},{2,1,0,3},{2,1,3,0},{2,3,0,1},{2,3,1,0},{3,0,1,2},{3,0,2,1},{3,1,0,2},{3,1,2,0},{3,2,0,1},{3,2,1,0}};
    for (int p = 0; p < 24; p++)
        for (int z = 0; z < 2; z++) {
            uint64_t set[6];
            int n = 0;
            for (int i = 0; i < 4; i++) {
                if (z && i == 2) set[n++] = 0;
                set[n++] = e[P[p][i]];
            }
            int64_t got = -7;
            mc_trans(2);
            H3Error es = uncompactCellsSize(set, n, t, &got);
            int64_t cap = t < finest ? 64 : want;
            uint64_t *out = calloc(cap + 1, 8);
            out[cap] = CANARY;
            H3Error eu = uncompactCells(set, n, out, cap, t);
            int canary = out[cap] == CANARY;
            int64_t nz = 0;
            for (int64_t i = 0; i < cap; i++) nz += out[i] != 0;
            free(out);
            MC_CHECK(canary, "uncompactCells wrote beyond its capacity (mixed-resolution set, permutation %d)", p);
            if (t < finest) {
                MC_CHECK(es == E_RES_MISMATCH, "uncompactCellsSize of a set containing a res-%d cell to res %d returned %d (size %" PRId64 "), permutation %d of {%" PRIx64 ",%" PRIx64 ",%" PRIx64 ",%" PRIx64 "}", finest, t, es, got, p, e[0], e[1], e[2], e[3]);
                MC_CHECK(eu == E_RES_MISMATCH, "uncompactCells of a set containing a res-%d cell to res %d returned %d, permutation %d of {%" PRIx64 ",%" PRIx64 ",%" PRIx64 ",%" PRIx64 "}", finest, t, eu, p, e[0], e[1], e[2], e[3]);
            } else {
                MC_CHECK(es == 0 && got == want, "uncompactCellsSize(mixed set, res %d) = %d, %" PRId64 "; expected %" PRId64, t, es, got, want);
                MC_CHECK(eu == 0 && nz == want, "uncompactCells(mixed set, res %d) returned %d with %" PRId64 " cells; expected %" PRId64, t, eu, nz, want);
            }
        }
}
const McOp MC_OPS[] = {{"sub", "hii", op_sub}, {"subs", "hi", op_subs}, {"two", "hii", op_two}, {"three", "hii", op_three}, {"tree", "hiii", op_tree}, {"disk", "hiii", op_disk}, {"size", "hh", op_size}, {"mixed", "hi", op_mixed}};
const int MC_NOPS = 8;

static U64Vec g_par;
static void ph_subs(void *u) {
    uint64_t idx = 0;
    for (size_t i = 0; i < g_par.n; i++)
        for (int mask = 1; mask < 128; mask++, idx++) {
            if (!mc_mine(idx)) continue;
            if (mc_expired()) return;
            if (nkids(g_par.v[i]) == 6 && mask >= 64) continue;
            MC_RUN(OP_SUBS, H(g_par.v[i]), I(mask));
        }
}
static void ph_two(void *u) {
    int which = *(int *)u;
    uint64_t idx = 0;
    for (size_t i = 0; i < g_par.n; i++) {
        int nc = nkids(g_par.v[i]);
        int64_t combos = 1;
        for (int c = 0; c < nc; c++) combos *= 5;
        for (int64_t cmb = 1; cmb < combos; cmb++)
            for (int o = 0; o < NORDERS; o++, idx++) {
                if (!mc_mine(idx)) continue;
                if (mc_tick(255)) return;
                MC_RUN(which, H(g_par.v[i]), I(cmb), I(o));
            }
    }
}
static int g_depthmax;
static void ph_tree(void *u) {
    uint64_t idx = 0;
    for (size_t i = 0; i < g_par.n; i++)
        for (int depth = 1; depth <= g_depthmax && spec_res(g_par.v[i]) + depth <= 15; depth++) {
            int64_t n = spec_children_count(g_par.v[i], depth);
            int64_t step = depth <= 3 ? 1 : n / 48;
            for (int64_t miss = -1; miss < n; miss += (miss < 0 ? 1 : step))
                for (int o = 0; o < 4; o++, idx++) {
                    if (!mc_mine(idx)) continue;
                    if (mc_expired()) return;
                    MC_RUN(OP_TREE, H(g_par.v[i]), I(depth), I(miss), I(o));
                }
        }
}
static void ph_size(void *u) {
    uint64_t idx = 0;
    // resolution 0: every cell with its successor; finer: every pentagon and a hexagon of every base cell, each with a sibling
    for (int bc = 0; bc < 122; bc++, idx++) {
        int d[15] = {0};
        if (mc_mine(idx)) MC_RUN(OP_SIZE, H(spec_mk(0, bc, d)), H(spec_mk(0, (bc + 1) % 122, d)));
    }
    for (int r = 1; r <= 15; r++)
        for (int bc = 0; bc < 122; bc++, idx++) {
            if (!mc_mine(idx)) continue;
            if (mc_expired()) return;
            int d[15] = {0}, e[15] = {0};
            e[r - 1] = 2 + (bc + r) % 5;  // a sibling of the centre child
            MC_RUN(OP_SIZE, H(spec_mk(r, bc, d)), H(spec_mk(r, bc, e)));
            if (r >= 2) {
                d[0] = 3, e[0] = 3;
                e[r - 1] = 6;
                MC_RUN(OP_SIZE, H(spec_mk(r, bc, d)), H(spec_mk(r, bc, e)));
            }
        }
}
static void ph_mixed(void *u) {
    uint64_t idx = 0;
    for (int r = 0; r <= 12; r++)
        for (int bc = 0; bc < 122; bc += (r < 2 ? 1 : 7))
            for (int t = r; t <= r + 5 && t <= 15; t++, idx++) {
                if (!mc_mine(idx)) continue;
                if (mc_expired()) return;
                int d[15] = {0};
                if (r > 1) d[0] = 2 + bc % 5;
                MC_RUN(OP_MIXED, H(spec_mk(r, bc, d)), I(t));
            }
}
static int g_kmax, g_diskdepth;
static void ph_disk(void *u) {
    uint64_t idx = 0;
    for (size_t i = 0; i < g_par.n; i++)
        for (int k = 0; k <= g_kmax; k++)
            for (int depth = 0; depth <= g_diskdepth && spec_res(g_par.v[i]) + depth <= 15; depth++)
                for (int o = 0; o < 4; o++, idx++) {
                    // keep a set below ~50 000 cells: (3k(k+1)+1) * 7^depth
                    if ((3.0 * k * (k + 1) + 1) * spec_ipow7(depth) > 50000) continue;
                    if (!mc_mine(idx)) continue;
                    if (mc_expired()) return;
                    MC_RUN(OP_DISK, H(g_par.v[i]), I(k), I(depth), I(o));
                }
}
static void parents_at(int res, U64Vec *out) {
    // hexagon, pentagon, seam (digit run), pentagon child, at the given resolution
    int d[15];
    for (int i = 0; i < 15; i++) d[i] = 0;
    uv_push(out, spec_mk(res, 20, d));
    uv_push(out, spec_mk(res, 4, d));
    for (int i = 0; i < 15; i++) d[i] = 3;
    uv_push(out, spec_mk(res, 121, d));
    if (res >= 1) {
        for (int i = 0; i < 15; i++) d[i] = 0;
        d[res - 1] = 2;
        uv_push(out, spec_mk(res, 58, d));
    }
}
int main(int argc, char **argv) {
    mc_init(argc, argv);
    snprintf(mc_bounds, sizeof mc_bounds,
             "sub: 4 parent kinds x resolutions {0,7,14} x all subsets x all permutations; two: 4 grandparent kinds at res {0,%s13} x 5^7 x 6 orders; "
             "three: %d great-grandparent kinds x 5^7 x %d orders; tree: roots FULL(0..%d)+PENT x depth<=%d (every single missing cell to depth 3, 48 positions beyond) x 4 orders; "
             "disks k<=%d x child depth<=%d around FINE level 2 origins (every 9th) and all res-0 cells",
             mc_thorough ? "6," : "", mc_thorough ? 4 : 2, mc_thorough ? 6 : 2, mc_thorough ? 1 : 0, mc_thorough ? 5 : 4, mc_thorough ? 10 : 6, mc_thorough ? 4 : 2);
    for (int r = 0; r <= 14; r += 7) parents_at(r, &g_par);
    mc_phase("sibling subsets x permutations", ph_subs, NULL);
    g_par.n = 0;
    parents_at(0, &g_par);
    parents_at(13, &g_par);
    if (mc_thorough) parents_at(6, &g_par);
    int which = OP_TWO;
    mc_phase("two-level states", ph_two, &which);
    g_par.n = 0;
    parents_at(mc_thorough ? 5 : 12, &g_par);
    if (!mc_thorough) g_par.n = 2;
    which = OP_THREE;
    {
        // three-level: fewer orders in quick
        mc_phase("three-level states", ph_two, &which);
    }
    g_par.n = 0;
    dom_full(0, &g_par);
    if (mc_thorough) dom_full(1, &g_par);
    for (int r = 2; r <= 11; r += 3) dom_pent(r, 1, &g_par);
    g_depthmax = mc_thorough ? 5 : 4;
    mc_phase("sub-trees minus one cell", ph_tree, NULL);
    g_par.n = 0;
    dom_full(0, &g_par);
    for (int r = 1; r <= 13; r++) {
        U64Vec f = {0};
        dom_fine_raw(r, 2, &f);
        for (size_t i = 0; i < f.n; i += (mc_thorough ? 13 : 9)) uv_push(&g_par, f.v[i]);
        uv_free(&f);
    }
    g_kmax = mc_thorough ? 9 : 6;
    g_diskdepth = mc_thorough ? 3 : 2;
    mc_phase("uncompact sizes at every depth", ph_size, NULL);
    mc_phase("mixed-resolution compact sets x permutations x targets", ph_mixed, NULL);
    mc_phase("disks and their children", ph_disk, NULL);
    return mc_finish();
}
