// BUILD: variant=opt
// C15 -- containment modes mean what they say, are nested, and the size bound holds.
#include "mc.h"
#include "dom.h"
#include "poly.h"

const char *MC_PROPERTY = "C15";
const char *MC_RULE =
    "poly(shape, anchor, scale, res): one catalogue polygon (see C07) through polygonToCellsExperimental in the four modes. Exact checks: "
    "no duplicates, valid cells of the resolution, FULL within CENTER within OVERLAPPING within OVERLAPPING_BBOX as sets, count <= "
    "maxPolygonToCellsSizeExperimental for every mode, capacity count-1 (and 0) gives E_MEMORY_BOUNDS with the canary after the capacity "
    "intact, invalid flags (4, 5, 8, 0x10, 0x80000000, 0xffffffff, mode|0x10..) give E_OPTION_INVALID from size and fill. Semantic "
    "checks per candidate cell (flood of the bounding box grown by 3 cell edges + sentinels + every returned cell; cells spanning > pi of "
    "longitude, i.e. containing a pole, are skipped) in the (lng,lat) plane with band delta = 2*max great-circle/straight midpoint "
    "deviation of the cell's edges + 1e-9: if cell outline and all rings are >= delta apart the relation is decided by single points "
    "(wholly inside / polygon or hole inside the cell / disjoint); a cell edge crossing a ring edge with all four end points >= delta off "
    "the other segment's line is a certain crossing; otherwise undecided. FULL => wholly; wholly => FULL; wholly or polygon-in-cell or "
    "hole-in-cell or certain crossing => OVERLAPPING; disjoint => not OVERLAPPING. Non-trivial: polygon with decided overlapping cells.";
const char *MC_ASSUME[] = {"three-valued planar oracle; undecided pairs are counted, never failed", NULL};
const char *MC_CTR_NAMES[] = {"polygons", "filtered_out", "decided_pairs", "undecided_pairs", "polar_cells_skipped", "wholly_inside", "certain_crossings", "hole_or_polygon_in_cell", "oracle_unavailable", NULL};
const char *MC_MAX_NAMES[] = {NULL};
#define CANARY 0xC0FFEE0DDEADBEEFull
enum { OP_POLY, OP_FLAGS };
typedef struct {
    double x, y;
} Q;
static double seg_pt(Q p, Q u, Q v) {
    double vx = v.x - u.x, vy = v.y - u.y, wx = p.x - u.x, wy = p.y - u.y, vv = vx * vx + vy * vy, t = vv > 0 ? (wx * vx + wy * vy) / vv : 0;
    if (t < 0) t = 0;
    if (t > 1) t = 1;
    return hypot(wx - t * vx, wy - t * vy);
}
static double line_pt(Q p, Q u, Q v) {
    double vx = v.x - u.x, vy = v.y - u.y, n = hypot(vx, vy);
    if (n == 0) return hypot(p.x - u.x, p.y - u.y);
    return fabs(vx * (p.y - u.y) - vy * (p.x - u.x)) / n;
}
// min distance between segments (0 if they intersect); *certain = 1 if they cross with all end points >= band off the other line
static double segseg(Q a, Q b, Q c, Q d, double band, int *certain) {
    double d1 = (b.x - a.x) * (c.y - a.y) - (b.y - a.y) * (c.x - a.x), d2 = (b.x - a.x) * (d.y - a.y) - (b.y - a.y) * (d.x - a.x);
    double d3 = (d.x - c.x) * (a.y - c.y) - (d.y - c.y) * (a.x - c.x), d4 = (d.x - c.x) * (b.y - c.y) - (d.y - c.y) * (b.x - c.x);
    if (((d1 > 0) != (d2 > 0)) && ((d3 > 0) != (d4 > 0))) {
        if (line_pt(c, a, b) >= band && line_pt(d, a, b) >= band && line_pt(a, c, d) >= band && line_pt(b, c, d) >= band) *certain = 1;
        return 0;
    }
    return fmin(fmin(seg_pt(a, c, d), seg_pt(b, c, d)), fmin(seg_pt(c, a, b), seg_pt(d, a, b)));
}
static int pipQ(const Q *v, int n, Q p) {
    int c = 0;
    for (int i = 0; i < n; i++) {
        Q a = v[i], b = v[(i + 1) % n];
        if ((a.y > p.y) != (b.y > p.y)) {
            double xi = a.x + (p.y - a.y) / (b.y - a.y) * (b.x - a.x);
            if (xi > p.x) c = !c;
        }
    }
    return c;
}
// a cell whose boundary spans more than pi of longitude contains a pole: exempt by the property
static int is_polar(uint64_t h) {
    LatLng c;
    CellBoundary cb;
    if (cellToLatLng(h, &c) || cellToBoundary(h, &cb)) return 0;
    double lo = 1e9, hi = -1e9;
    for (int i = 0; i < cb.numVerts; i++) {
        double x = geo_wrap(cb.verts[i].lng - c.lng);
        lo = fmin(lo, x), hi = fmax(hi, x);
    }
    return hi - lo > M_PI || fabs(c.lat) > M_PI / 2 - 1e-6;
}
static OGraph G;
static int G_init;
static void op_poly(const McArg *a) {
    Poly p;
    if (poly_build((int)a[0].i, (int)a[1].i, (int)a[2].i, (int)a[3].i, &p)) {
        mc_ctr(1, 1);
        return;
    }
    int res = p.res;
    if (!G_init) og_init(&G, 1 << 16), G_init = 1;
    if (G.n > 1500000) og_clear(&G);
    U64Vec cand = {0}, sets[4] = {{0}, {0}, {0}, {0}};
    int cr = poly_candidates(&p, &G, 3 * p.u, &cand);
    if (cr < 0) {
        mc_ctr(cr == -1 ? 8 : 1, 1);
        uv_free(&cand);
        return;
    }
    mc_ctr(0, 1);
    for (uint32_t mode = 0; mode < 4; mode++) {
        int64_t sz = -1;
        mc_trans(3);
        H3Error e = maxPolygonToCellsSizeExperimental(&p.gp, res, mode, &sz);
        if (e || sz < 0) {
            mc_fail("maxPolygonToCellsSizeExperimental(mode %u) returned %d (size %" PRId64 ")", mode, e, sz);
            goto done;
        }
        uint64_t *out = calloc(sz + 1, 8);
        out[sz] = CANARY;
        e = polygonToCellsExperimental(&p.gp, res, mode, sz, out);
        if (out[sz] != CANARY) {
            mc_fail("polygonToCellsExperimental(mode %u) wrote beyond the capacity %" PRId64, mode, sz);
            free(out);
            goto done;
        }
        if (e) {
            mc_fail("polygonToCellsExperimental(mode %u) returned %d with capacity maxPolygonToCellsSizeExperimental = %" PRId64 "%s", mode, e, sz,
                    e == E_MEMORY_BOUNDS ? " (the size function is not an upper bound)" : "");
            free(out);
            goto done;
        }
        for (int64_t i = 0; i < sz; i++)
            if (out[i]) uv_push(&sets[mode], out[i]);
        free(out);
        size_t raw = sets[mode].n;
        uv_sortuniq(&sets[mode]);
        if (raw != sets[mode].n) {
            mc_fail("mode %u returned %zu cells of which only %zu are distinct", mode, raw, sets[mode].n);
            goto done;
        }
        for (size_t i = 0; i < sets[mode].n; i++)
            if (!spec_valid(sets[mode].v[i]) || spec_res(sets[mode].v[i]) != res) {
                mc_fail("mode %u returned %" PRIx64 " which is not a valid res-%d cell", mode, sets[mode].v[i], res);
                goto done;
            }
        // smaller capacities
        int64_t n = sets[mode].n;
        int64_t caps[2] = {n - 1, 0};
        for (int k = 0; k < 2; k++) {
            int64_t cap = caps[k];
            if (cap < 0 || cap >= n) continue;
            uint64_t *o2 = calloc(n + 2, 8);
            o2[cap] = CANARY;
            H3Error e2 = polygonToCellsExperimental(&p.gp, res, mode, cap, o2);
            int over = o2[cap] != CANARY;
            for (int64_t i = cap + 1; i < n + 2; i++) over |= o2[i] != 0;
            free(o2);
            if (e2 != E_MEMORY_BOUNDS || over) {
                mc_fail("polygonToCellsExperimental(mode %u) with capacity %" PRId64 " (< %" PRId64 " cells) returned %d%s; expected E_MEMORY_BOUNDS without overrun", mode, cap, n, e2, over ? " and wrote beyond the capacity" : "");
                goto done;
            }
        }
    }
    {
        static const int order[4] = {1, 0, 2, 3};
        static const char *nm[4] = {"CENTER", "FULL", "OVERLAPPING", "OVERLAPPING_BBOX"};
        for (int k = 0; k < 3; k++)
            for (size_t i = 0; i < sets[order[k]].n; i++)
                if (!uv_has(&sets[order[k + 1]], sets[order[k]].v[i]) && !is_polar(sets[order[k]].v[i])) {
                    mc_fail("cell %" PRIx64 " is returned in mode %s but not in mode %s", sets[order[k]].v[i], nm[order[k]], nm[order[k + 1]]);
                    goto done;
                }
    }
    // semantic oracle
    for (int m = 0; m < 4; m++)
        for (size_t i = 0; i < sets[m].n; i++) uv_push(&cand, sets[m].v[i]);
    uv_sortuniq(&cand);
    double ref = p.outer.v[0].lng;
    Q po[16], ph[3][16];
    double minx = 1e9, maxx = -1e9, miny = 1e9, maxy = -1e9;
    for (int i = 0; i < p.outer.n; i++) {
        po[i] = (Q){unwrap_about(p.outer.v[i].lng, ref), p.outer.v[i].lat};
        minx = fmin(minx, po[i].x), maxx = fmax(maxx, po[i].x), miny = fmin(miny, po[i].y), maxy = fmax(maxy, po[i].y);
    }
    for (int k = 0; k < p.nh; k++)
        for (int i = 0; i < p.holes[k].n; i++) ph[k][i] = (Q){unwrap_about(p.holes[k].v[i].lng, ref), p.holes[k].v[i].lat};
    int any = 0;
    for (size_t ci = 0; ci < cand.n; ci++) {
        uint64_t h = cand.v[ci];
        LatLng c;
        CellBoundary cb;
        if (cellToLatLng(h, &c) || cellToBoundary(h, &cb) || cb.numVerts < 3) continue;
        Q cv[10];
        double cminx = 1e9, cmaxx = -1e9, cminy = 1e9, cmaxy = -1e9, cref = unwrap_about(c.lng, ref), band = 1e-9;
        for (int i = 0; i < cb.numVerts; i++) {
            cv[i] = (Q){cref + geo_wrap(cb.verts[i].lng - c.lng), cb.verts[i].lat};
            cminx = fmin(cminx, cv[i].x), cmaxx = fmax(cmaxx, cv[i].x), cminy = fmin(cminy, cv[i].y), cmaxy = fmax(cmaxy, cv[i].y);
        }
        if (cmaxx - cminx > M_PI || fabs(c.lat) > M_PI / 2 - 1e-6) {
            mc_ctr(4, 1);
            continue;
        }
        for (int i = 0; i < cb.numVerts; i++) {
            LatLng A = cb.verts[i], B = cb.verts[(i + 1) % cb.numVerts];
            DV3 m = {cos(A.lat) * cos(A.lng) + cos(B.lat) * cos(B.lng), cos(A.lat) * sin(A.lng) + cos(B.lat) * sin(B.lng), sin(A.lat) + sin(B.lat)};
            LatLng gm = dll(m);
            double gx = cref + geo_wrap(gm.lng - c.lng), sxm = (cv[i].x + cv[(i + 1) % cb.numVerts].x) / 2, sym = (A.lat + B.lat) / 2;
            double dv = hypot(gx - sxm, gm.lat - sym);
            band = fmax(band, 2 * dv + 1e-9);
        }
        int inF = uv_has(&sets[1], h), inO = uv_has(&sets[2], h);
        if (cminx > maxx + band || cmaxx < minx - band || cminy > maxy + band || cmaxy < miny - band) {
            mc_ctr(2, 1);
            if (inO) {
                mc_fail("OVERLAPPING returns %" PRIx64 " whose lat/lng extent is disjoint from the polygon's bounding box", h);
                goto done;
            }
            continue;
        }
        double mind = 1e18;
        int certain = 0;
        for (int i = 0; i < cb.numVerts; i++)
            for (int k = -1; k < p.nh; k++) {
                const Q *lp = k < 0 ? po : ph[k];
                int ln = k < 0 ? p.outer.n : p.holes[k].n;
                for (int j = 0; j < ln; j++) mind = fmin(mind, segseg(cv[i], cv[(i + 1) % cb.numVerts], lp[j], lp[(j + 1) % ln], band, &certain));
            }
        if (certain) {
            mc_ctr(2, 1);
            mc_ctr(6, 1);
            any = 1;
            if (inF) {
                mc_fail("FULL returns %" PRIx64 " although one of its edges crosses a polygon edge", h);
                goto done;
            }
            if (!inO) {
                mc_fail("OVERLAPPING omits %" PRIx64 " although one of its edges crosses a polygon edge", h);
                goto done;
            }
            continue;
        }
        if (mind < band) {
            mc_ctr(3, 1);
            continue;
        }
        mc_ctr(2, 1);
        int v0in = pipQ(po, p.outer.n, cv[0]), inHole = 0, holeInCell = 0, polyInCell = pipQ(cv, cb.numVerts, po[0]);
        for (int k = 0; k < p.nh; k++) {
            if (pipQ(ph[k], p.holes[k].n, cv[0])) inHole = 1;
            if (pipQ(cv, cb.numVerts, ph[k][0])) holeInCell = 1;
        }
        int wholly = v0in && !inHole && !holeInCell && !polyInCell;
        int overlap = (v0in && !inHole) || polyInCell || holeInCell;
        if (wholly) mc_ctr(5, 1);
        if (polyInCell || holeInCell) mc_ctr(7, 1);
        if (overlap) any = 1;
        if (wholly && !inF) {
            mc_fail("FULL omits %" PRIx64 " which lies wholly in the polygon's interior (outline distance %.3g, band %.3g)", h, mind, band);
            goto done;
        }
        if (!wholly && inF) {
            mc_fail("FULL returns %" PRIx64 " which is not contained in the polygon (vertex inside outer %d, in hole %d, hole in cell %d, polygon in cell %d)", h, v0in, inHole, holeInCell, polyInCell);
            goto done;
        }
        if (overlap && !inO) {
            mc_fail("OVERLAPPING omits %" PRIx64 " which shares a point with the polygon (cell vertex in polygon %d, polygon vertex in cell %d, hole inside cell %d)", h, v0in && !inHole, polyInCell, holeInCell);
            goto done;
        }
        if (!overlap && inO) {
            mc_fail("OVERLAPPING returns %" PRIx64 " which is disjoint from the polygon (outline distance %.3g)", h, mind);
            goto done;
        }
    }
    if (any) mc_nontrivial();
done:
    uv_free(&cand);
    for (int m = 0; m < 4; m++) uv_free(&sets[m]);
}
static void op_flags(const McArg *a) {
    Poly p;
    if (poly_build((int)a[0].i, (int)a[1].i, (int)a[2].i, (int)a[3].i, &p)) return;
    mc_nontrivial();
    static const uint32_t bad[] = {4, 5, 7, 8, 15, 0x10, 0x11, 0x12, 0x13, 0x20, 0x100, 0x10000, 0x80000000u, 0x80000001u, 0xffffffffu, 0xfffffff0u};
    for (unsigned k = 0; k < sizeof bad / sizeof *bad; k++) {
        int64_t sz = 0x7777;
        uint64_t out[4] = {CANARY, CANARY, CANARY, CANARY};
        mc_trans(2);
        H3Error e = maxPolygonToCellsSizeExperimental(&p.gp, p.res, bad[k], &sz);
        MC_CHECK(e == E_OPTION_INVALID, "maxPolygonToCellsSizeExperimental(flags 0x%x) returned %d, expected E_OPTION_INVALID", bad[k], e);
        e = polygonToCellsExperimental(&p.gp, p.res, bad[k], 4, out);
        MC_CHECK(e == E_OPTION_INVALID, "polygonToCellsExperimental(flags 0x%x) returned %d, expected E_OPTION_INVALID", bad[k], e);
    }
}
const McOp MC_OPS[] = {{"poly", "iiii", op_poly}, {"flags", "iiii", op_flags}};
const int MC_NOPS = 2;

static int g_astep, g_rstep;
static void ph_poly(void *u) {
    int res0 = *(int *)u;
    uint64_t idx = 0;
    for (int res = res0; res <= 15; res += g_rstep)
        for (int an = 0; an < poly_nanchor; an++) {
            int k = poly_anchor_kind[an];
            if ((k == 0 || k == 2) && an % g_astep) continue;
            for (int sh = 0; sh < POLY_NSHAPES; sh++)
                for (int sc = 0; sc < 4; sc++, idx++) {
                    if (!mc_mine(idx)) continue;
                    if (mc_expired()) return;
                    MC_RUN(OP_POLY, I(sh), I(an), I(sc), I(res));
                    if (sc == 1 && sh % 5 == 1) MC_RUN(OP_FLAGS, I(sh), I(an), I(sc), I(res));
                }
        }
}
// cell-derived "tip" polygons: a small quadrilateral over each corner of the cell at the anchor (see poly.h): cells that the polygon touches
// only in a corner tip -- what a too-small bounding-box pre-filter loses
static void ph_tips(void *u) {
    uint64_t idx = 0;
    for (int res = 0; res <= 15; res++)
        for (int an = 0; an < poly_nanchor; an++) {
            int k = poly_anchor_kind[an];
            if (!mc_thorough && ((k == 0 && an % 3) || (k == 2 && an % 16))) continue;
            for (int tip = 0; tip < 6; tip++)
                for (int sc = 0; sc < 4; sc += (mc_thorough ? 1 : 2), idx++) {
                    if (!mc_mine(idx)) continue;
                    if (mc_expired()) return;
                    MC_RUN(OP_POLY, I(POLY_NSHAPES + tip), I(an), I(sc), I(res));
                }
        }
}
int main(int argc, char **argv) {
    mc_init(argc, argv);
    g_astep = mc_thorough ? 1 : 12;
    g_rstep = mc_thorough ? 1 : 3;
    poly_build_anchors();
    snprintf(mc_bounds, sizeof mc_bounds, "14 shapes x 4 scales x %d anchors (%s) x resolutions %s x 4 modes x capacities {max, count-1, 0}; 16 invalid flag values", poly_nanchor,
             mc_thorough ? "all" : "all special anchors + every 12th base-cell centre/corner", mc_thorough ? "0..15" : "0,3,..,15 and 1,4,..,13 / 2,5,..,14 (sparser anchors)");
    snprintf(mc_bounds + strlen(mc_bounds), sizeof mc_bounds - strlen(mc_bounds), "; corner-tip polygons: 6 corners x %d sizes x %s anchors x all 16 resolutions", mc_thorough ? 4 : 2, mc_thorough ? "all" : "every 3rd base-cell centre + special");
    int r0 = 0;
    mc_phase("catalogue", ph_poly, &r0);
    if (!mc_thorough) {
        g_astep = 40;
        r0 = 1;
        mc_phase("catalogue (resolutions 1,4,..)", ph_poly, &r0);
        r0 = 2;
        mc_phase("catalogue (resolutions 2,5,..)", ph_poly, &r0);
    }
    mc_phase("corner-tip polygons, all resolutions", ph_tips, NULL);
    return mc_finish();
}
