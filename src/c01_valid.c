// BUILD: variant=opt
// C01 -- isValidCell is exactly the documented layout; closure of cell-valued outputs.
// Exhaustive sub-spaces A-E (see DESIGN.md §4-C01) + closure driver over FULL(0..2) and FINE.
#include "mc.h"
#include "dom.h"

const char *MC_PROPERTY = "C01";
const char *MC_RULE =
    "A: all 2^19 header values x digit-field catalogue; B: all 8^6 digit windows x 10 offsets x 16 resolutions x 6 "
    "base cells x 3 outside fills; C: every valid fill with <=3 digit positions replaced by every value; D: complete "
    "4^15 digit products over alphabets {0,1,6,7},{0,2,5,7},{1,3,4,7} x resolutions x base cells; E: all 8^r fields "
    "r<=6 counted against 2+120*7^r; closure: every cell-producing API entry point driven from every cell of the cell "
    "domain, each output checked with the digit-loop spec. A case is one batch; it is non-trivial when the batch "
    "contains both spec-valid and spec-invalid values (the predicate boundary is crossed inside the batch) or, for "
    "closure cases, when the origin is a pentagon, a pentagon neighbour or lies on a base-cell seam (digit run).";
const char *MC_ASSUME[] = {"spec_valid (src/spec.h) is the documented layout: high 0, mode 1, reserved 0, base cell < 122, "
                           "digits 0-6 up to res, 7 after, pentagon base cells {4,14,24,38,49,58,63,72,83,97,107,117} "
                           "with first non-zero digit != 1",
                           "2^64 is not enumerated: the predicate is decided on sub-spaces A-E only", NULL};
const char *MC_CTR_NAMES[] = {"values_evaluated", "values_valid", "closure_outputs_checked", "closure_calls_failed_ok", NULL};
const char *MC_MAX_NAMES[] = {NULL};

static uint64_t g_valid, g_total;
static inline int cmp1(uint64_t h) {
    int s = spec_valid(h), l = isValidCell(h) ? 1 : 0;
    g_total++;
    g_valid += s;
    if (s != l) {
        mc_fail("isValidCell(%" PRIx64 ") = %d, documented layout says %d", h, l, s);
        return 0;
    }
    return 1;
}
static void flush_counts(void) {
    mc_ctr(0, g_total);
    mc_ctr(1, g_valid);
    mc_trans(g_total);
    mc_states(g_total);
    if (g_valid && g_valid < g_total) mc_nontrivial();
    g_total = g_valid = 0;
}

// ---- digit field catalogue for A
static uint64_t A_fields[400];
static int A_n;
static uint64_t field_of(const int *d) {
    uint64_t f = 0;
    for (int r = 1; r <= 15; r++) f |= (uint64_t)d[r - 1] << (3 * (15 - r));
    return f;
}
static void build_A(void) {
    int d[15];
    static const int vals[] = {0, 1, 2, 6};
    for (int rp = 0; rp <= 15; rp++)
        for (int vi = 0; vi < 4; vi++) {
            for (int i = 0; i < 15; i++) d[i] = i < rp ? vals[vi] : 7;
            A_fields[A_n++] = field_of(d);
            // leading zeros then value (deleted subsequence shapes)
            if (rp >= 2) {
                for (int i = 0; i < 15; i++) d[i] = i < rp - 1 ? 0 : i < rp ? vals[vi] : 7;
                A_fields[A_n++] = field_of(d);
                for (int i = 0; i < 15; i++) d[i] = i == 0 ? 0 : i < rp ? vals[vi] : 7;
                A_fields[A_n++] = field_of(d);
            }
        }
    for (int i = 0; i < 15; i++) d[i] = 0;
    A_fields[A_n++] = field_of(d);
    for (int i = 0; i < 15; i++) d[i] = 7;
    A_fields[A_n++] = field_of(d);
    for (int i = 0; i < 15; i++) d[i] = i % 2 ? 7 : 3;
    A_fields[A_n++] = field_of(d);
    for (int i = 0; i < 15; i++) d[i] = i < 7 ? 7 : 0;
    A_fields[A_n++] = field_of(d);
    for (int i = 0; i < 15; i++) d[i] = i;
    A_fields[A_n++] = field_of(d);
}
static void op_hdr(const McArg *a) {
    uint64_t top = a[0].u << 45;
    for (int i = 0; i < A_n; i++)
        if (!cmp1(top | A_fields[i])) break;
    flush_counts();
}
// ---- B: windows. args: bc res offset(1..10) fill(0 valid,1 zeros,2 sevens) firstdigit(0..7)
static void op_win(const McArg *a) {
    int bc = (int)a[0].i, res = (int)a[1].i, off = (int)a[2].i, fill = (int)a[3].i, d0 = (int)a[4].i;
    int d[15];
    for (int i = 0; i < 15; i++) d[i] = fill == 0 ? (i < res ? (i % 2 ? 3 : 0) : 7) : fill == 1 ? 0 : 7;
    uint64_t base = ((uint64_t)1 << 59) | ((uint64_t)res << 52) | ((uint64_t)bc << 45);
    d[off - 1] = d0;
    for (int w = 0; w < 32768; w++) {
        int x = w;
        for (int k = 1; k < 6; k++) {
            d[off - 1 + k] = x & 7;
            x >>= 3;
        }
        if (!cmp1(base | field_of(d))) break;
    }
    flush_counts();
}
// ---- C: deviations. args: fill value h, positions p1 p2 p3 (1..15, 0 = unused)
static void op_dev(const McArg *a) {
    uint64_t h = a[0].u;
    int p[3] = {(int)a[1].i, (int)a[2].i, (int)a[3].i};
    int np = (p[0] > 0) + (p[1] > 0) + (p[2] > 0);
    int tot = 1;
    for (int i = 0; i < np; i++) tot *= 8;
    for (int w = 0; w < tot; w++) {
        uint64_t x = h;
        int y = w;
        for (int i = 0; i < np; i++) {
            x = spec_set_digit(x, p[i], y & 7);
            y >>= 3;
        }
        if (!cmp1(x)) break;
    }
    flush_counts();
}
// ---- D: product over 4-letter alphabets. args: alphabet res bc prefix(0..1023: first five digits)
static const int ALPH[3][4] = {{0, 1, 6, 7}, {0, 2, 5, 7}, {1, 3, 4, 7}};
static void op_prod(const McArg *a) {
    const int *al = ALPH[a[0].i];
    int res = (int)a[1].i, bc = (int)a[2].i, pre = (int)a[3].i;
    uint64_t base = ((uint64_t)1 << 59) | ((uint64_t)res << 52) | ((uint64_t)bc << 45);
    for (int k = 0; k < 5; k++) {
        base |= (uint64_t)al[pre & 3] << (3 * (15 - (k + 1)));
        pre >>= 2;
    }
    // precompute 2^10 five-digit groups for digits 6..10 and 11..15
    static uint64_t g1[3][1024], g2[3][1024];
    static int init[3];
    int ai = (int)a[0].i;
    if (!init[ai]) {
        for (int w = 0; w < 1024; w++) {
            uint64_t f1 = 0, f2 = 0;
            int x = w;
            for (int k = 0; k < 5; k++) {
                f1 |= (uint64_t)al[x & 3] << (3 * (15 - (6 + k)));
                f2 |= (uint64_t)al[x & 3] << (3 * (15 - (11 + k)));
                x >>= 2;
            }
            g1[ai][w] = f1;
            g2[ai][w] = f2;
        }
        init[ai] = 1;
    }
    for (int u = 0; u < 1024; u++) {
        uint64_t b1 = base | g1[ai][u];
        for (int v = 0; v < 1024; v++)
            if (!cmp1(b1 | g2[ai][v])) goto out;
    }
out:
    flush_counts();
}
// ---- E: count. args: r bc
static void op_cnt(const McArg *a) {
    int r = (int)a[0].i, bc = (int)a[1].i;
    uint64_t base = ((uint64_t)1 << 59) | ((uint64_t)r << 52) | ((uint64_t)bc << 45);
    for (int k = r + 1; k <= 15; k++) base |= (uint64_t)7 << (3 * (15 - k));
    uint64_t tot = (uint64_t)1 << (3 * r);
    int64_t acc = 0;
    for (uint64_t w = 0; w < tot; w++) {
        uint64_t h = base | (w << (3 * (15 - r)));
        if (!cmp1(h)) break;
        acc += isValidCell(h) ? 1 : 0;
    }
    int64_t want = bc >= 122 ? 0 : spec_is_pent_bc(bc) ? 1 + 5 * (spec_ipow7(r) - 1) / 6 : spec_ipow7(r);
    if (acc != want)
        mc_fail("resolution %d base cell %d: isValidCell accepts %" PRId64 " digit fields, expected %" PRId64, r, bc, acc,
                want);
    flush_counts();
}

// ---- closure driver
static int g_cl_fail;
static void chk_out(const char *fn, uint64_t origin, uint64_t out, int wantres) {
    if (g_cl_fail) return;
    mc_ctr(2, 1);
    if (!spec_valid(out) || (wantres >= 0 && spec_res(out) != wantres)) {
        g_cl_fail = 1;
        mc_fail("%s driven from %" PRIx64 " returned %" PRIx64 " which is not a valid cell of resolution %d", fn, origin,
                out, wantres);
    }
}
static void chk_arr(const char *fn, uint64_t origin, const uint64_t *out, int64_t n, int wantres) {
    for (int64_t i = 0; i < n; i++)
        if (out[i]) chk_out(fn, origin, out[i], wantres);
}
#define CALL(e) (mc_trans(1), (e))
static void op_closure(const McArg *a) {
    uint64_t h = a[0].u;
    int res = spec_res(h);
    g_cl_fail = 0;
    int runlen = 0;
    for (int r = 2; r <= res; r++)
        if (spec_digit(h, r) == spec_digit(h, r - 1)) runlen++;
    if (spec_is_pent_bc(spec_bc(h)) || (res >= 2 && runlen >= res - 2)) mc_nontrivial();
    uint64_t buf[400];
    int dist[400];
    LatLng c;
    CellBoundary cb;
    uint64_t o;
    if (CALL(cellToLatLng(h, &c)) == 0) {
        for (int r = 0; r <= 15; r += (res > 3 ? 5 : 1))
            if (CALL(latLngToCell(&c, r, &o)) == 0) chk_out("latLngToCell(centre)", h, o, r);
    }
    if (CALL(cellToBoundary(h, &cb)) == 0)
        for (int i = 0; i < cb.numVerts; i++) {
            if (CALL(latLngToCell(&cb.verts[i], res, &o)) == 0) chk_out("latLngToCell(vertex)", h, o, res);
            int r2 = res + 1 > 15 ? 15 : res + 1;
            if (CALL(latLngToCell(&cb.verts[i], r2, &o)) == 0) chk_out("latLngToCell(vertex)", h, o, r2);
        }
    for (int p = 0; p <= res; p++)
        if (CALL(cellToParent(h, p, &o)) == 0) chk_out("cellToParent", h, o, p);
    for (int cr = res; cr <= res + 2 && cr <= 15; cr++) {
        int64_t n;
        if (CALL(cellToChildrenSize(h, cr, &n)) || n > 400) continue;
        memset(buf, 0, sizeof buf);
        if (CALL(cellToChildren(h, cr, buf)) == 0) chk_arr("cellToChildren", h, buf, n, cr);
        for (int64_t pos = 0; pos < n; pos += (n > 8 ? n / 8 : 1))
            if (CALL(childPosToCell(pos, h, cr, &o)) == 0) chk_out("childPosToCell", h, o, cr);
        if (CALL(childPosToCell(n - 1, h, cr, &o)) == 0) chk_out("childPosToCell", h, o, cr);
    }
    for (int cr = res; cr <= 15; cr++)
        if (CALL(cellToCenterChild(h, cr, &o)) == 0) chk_out("cellToCenterChild", h, o, cr);
    // boundary and out-of-range scalar arguments: whatever a call returns with E_SUCCESS must still be a valid cell
    for (int cr = res; cr <= 15; cr += (cr < res + 3 ? 1 : 4)) {
        int64_t n = 0, full = 1;
        if (CALL(cellToChildrenSize(h, cr, &n))) continue;
        for (int d = res; d < cr; d++) full *= 7;
        int64_t ps[] = {0, 1, n - 2, n - 1, n, n + 1, (n + full) / 2, full - 2, full - 1, full, full + 1, -1, INT64_MAX, INT64_MIN};
        for (unsigned q = 0; q < sizeof ps / sizeof *ps; q++)
            if (CALL(childPosToCell(ps[q], h, cr, &o)) == 0) chk_out("childPosToCell(boundary position)", h, o, cr);
        // the internal block boundaries of the position arithmetic: k*7^j and the pentagon widths 1+5(7^j-1)/6, each -1/+0/+1
        for (int64_t w7 = 1, j = 0; j <= cr - res; j++, w7 *= 7) {
            int64_t pw = 1 + 5 * (w7 - 1) / 6;
            int64_t qs[] = {w7 - 1, w7, w7 + 1, 2 * w7, 6 * w7 - 1, pw - 1, pw, pw + 1, pw + w7};
            for (unsigned q = 0; q < sizeof qs / sizeof *qs; q++)
                if (qs[q] >= 0 && CALL(childPosToCell(qs[q], h, cr, &o)) == 0) chk_out("childPosToCell(block boundary)", h, o, cr);
        }
    }
    for (int p = res + 1; p <= 16; p += 3)
        if (CALL(cellToParent(h, p, &o)) == 0) chk_out("cellToParent(finer)", h, o, -1);
    for (int cr = -1; cr < res; cr += 2)
        if (CALL(cellToCenterChild(h, cr, &o)) == 0) chk_out("cellToCenterChild(coarser)", h, o, -1);
    {
        static const int ext[] = {INT_MIN, INT_MIN + 1, -100000, -1000, 1000, 100000, INT_MAX / 3, INT_MAX - 1, INT_MAX};
        CoordIJ ij;
        for (unsigned q = 0; q < sizeof ext / sizeof *ext; q++)
            for (unsigned w = 0; w < sizeof ext / sizeof *ext; w += 2) {
                ij.i = ext[q], ij.j = ext[w];
                if (CALL(localIjToCell(h, &ij, 0, &o)) == 0) chk_out("localIjToCell(extreme ij)", h, o, res);
            }
    }
    if (CALL(getDirectedEdgeOrigin(h, &o)) == 0) chk_out("getDirectedEdgeOrigin(cell)", h, o, -1);
    if (CALL(getDirectedEdgeDestination(h, &o)) == 0) chk_out("getDirectedEdgeDestination(cell)", h, o, -1);
    for (int k = 0; k <= 2; k++) {
        int64_t n = 3 * k * (k + 1) + 1;
        memset(buf, 0, sizeof buf);
        if (CALL(gridDisk(h, k, buf)) == 0) chk_arr("gridDisk", h, buf, n, res);
        memset(buf, 0, sizeof buf);
        if (CALL(gridDiskDistances(h, k, buf, dist)) == 0) chk_arr("gridDiskDistances", h, buf, n, res);
        memset(buf, 0, sizeof buf);
        if (CALL(gridDiskDistancesSafe(h, k, buf, dist)) == 0) chk_arr("gridDiskDistancesSafe", h, buf, n, res);
        memset(buf, 0, sizeof buf);
        if (CALL(gridDiskUnsafe(h, k, buf)) == 0)
            chk_arr("gridDiskUnsafe", h, buf, n, res);
        else
            mc_ctr(3, 1);
        memset(buf, 0, sizeof buf);
        if (CALL(gridDiskDistancesUnsafe(h, k, buf, dist)) == 0) chk_arr("gridDiskDistancesUnsafe", h, buf, n, res);
        memset(buf, 0, sizeof buf);
        if (CALL(gridRingUnsafe(h, k, buf)) == 0) chk_arr("gridRingUnsafe", h, buf, k ? 6 * k : 1, res);
    }
    // two-ring neighbourhood for pair functions
    uint64_t ring[19];
    memset(ring, 0, sizeof ring);
    if (CALL(gridDisk(h, 2, ring)) == 0) {
        uint64_t set[2] = {h, 0};
        for (int i = 0; i < 19; i++) {
            uint64_t b = ring[i];
            if (!b || !spec_valid(b)) continue;
            int64_t n;
            if (CALL(gridPathCellsSize(h, b, &n)) == 0 && n <= 400) {
                memset(buf, 0, sizeof buf);
                if (CALL(gridPathCells(h, b, buf)) == 0) chk_arr("gridPathCells", h, buf, n, res);
            }
            uint64_t e;
            if (CALL(cellsToDirectedEdge(h, b, &e)) == 0) {
                uint64_t od[2];
                if (CALL(getDirectedEdgeOrigin(e, &o)) == 0) chk_out("getDirectedEdgeOrigin", h, o, res);
                if (CALL(getDirectedEdgeDestination(e, &o)) == 0) chk_out("getDirectedEdgeDestination", h, o, res);
                if (CALL(directedEdgeToCells(e, od)) == 0) chk_arr("directedEdgeToCells", h, od, 2, res);
            }
            if (i && !set[1] && b != h) set[1] = b;
        }
        if (set[1]) {
            memset(buf, 0, sizeof buf);
            if (CALL(gridDisksUnsafe(set, 2, 1, buf)) == 0) chk_arr("gridDisksUnsafe", h, buf, 14, res);
        }
        // compact the disk plus all children of the origin; uncompact back
        if (res < 15) {
            uint64_t in[64], outc[64];
            int n = 0;
            int64_t nc;
            if (cellToChildrenSize(h, res + 1, &nc) == 0 && cellToChildren(h, res + 1, in) == 0) {
                n = (int)nc;
                for (int i = 0; i < 19; i++)
                    if (ring[i] && ring[i] != h) {
                        uint64_t ch;
                        if (cellToCenterChild(ring[i], res + 1, &ch) == 0) in[n++] = ch;
                    }
                memset(outc, 0, sizeof outc);
                if (CALL(compactCells(in, outc, n)) == 0) {
                    chk_arr("compactCells", h, outc, n, -1);
                    int m = 0;
                    for (int i = 0; i < n; i++)
                        if (outc[i]) outc[m++] = outc[i];
                    int64_t un;
                    if (CALL(uncompactCellsSize(outc, m, res + 1, &un)) == 0 && un <= 400) {
                        memset(buf, 0, sizeof buf);
                        if (CALL(uncompactCells(outc, m, buf, un, res + 1)) == 0)
                            chk_arr("uncompactCells", h, buf, un, res + 1);
                    }
                }
            }
        }
    }
    uint64_t edges[6];
    if (CALL(originToDirectedEdges(h, edges)) == 0)
        for (int i = 0; i < 6; i++)
            if (edges[i] && CALL(getDirectedEdgeDestination(edges[i], &o)) == 0)
                chk_out("getDirectedEdgeDestination(originToDirectedEdges)", h, o, res);
    for (int di = -3; di <= 3; di++)
        for (int dj = -3; dj <= 3; dj++) {
            CoordIJ ij0, ij;
            if (cellToLocalIj(h, h, 0, &ij0)) continue;
            ij.i = ij0.i + di;
            ij.j = ij0.j + dj;
            if (CALL(localIjToCell(h, &ij, 0, &o)) == 0) chk_out("localIjToCell", h, o, res);
        }
    // a lat/lng box that wholly contains the cell and its neighbours, filled one and two resolutions finer (whole coarse cells -- pentagons
    // among them -- are emitted compactly and expanded by the child iterator)
    if (cb.numVerts >= 3 && res >= 1 && res <= 13 && (spec_is_pentagon(h) || spec_digit(h, res) == 3)) {
        double rad = 0;
        for (int i = 0; i < cb.numVerts; i++) rad = fmax(rad, adist(c, cb.verts[i]));
        double hw = 2.6 * rad;
        if (fabs(c.lat) + hw < M_PI / 2 - 0.05 && hw / cos(c.lat) < 1.0) {
            LatLng bx[4] = {{c.lat - hw, c.lng - hw / cos(c.lat)}, {c.lat - hw, c.lng + hw / cos(c.lat)}, {c.lat + hw, c.lng + hw / cos(c.lat)}, {c.lat + hw, c.lng - hw / cos(c.lat)}};
            for (int i = 0; i < 4; i++) bx[i].lng = geo_wrap(bx[i].lng);
            GeoPolygon box = {{4, bx}, 0, NULL};
            for (int r = res + 1; r <= res + 2 && r <= 15; r++)
                for (uint32_t fl = 0; fl < 4; fl += (mc_thorough ? 1 : 2)) {
                    int64_t n;
                    if (CALL(maxPolygonToCellsSizeExperimental(&box, r, fl, &n)) == 0 && n < 20000) {
                        uint64_t *pb = calloc(n ? n : 1, 8);
                        if (CALL(polygonToCellsExperimental(&box, r, fl, n, pb)) == 0) chk_arr("polygonToCellsExperimental(box around the cell)", h, pb, n, r);
                        free(pb);
                    }
                }
        }
    }
    // polygon fills of the cell's own outline, one and two resolutions finer
    if (cb.numVerts >= 3) {
        GeoPolygon poly = {{cb.numVerts, cb.verts}, 0, NULL};
        for (int r = res; r <= res + 2 && r <= 15; r++) {
            int64_t n;
            if (CALL(maxPolygonToCellsSize(&poly, r, 0, &n)) == 0 && n < 4000) {
                uint64_t *pb = calloc(n, 8);
                if (CALL(polygonToCells(&poly, r, 0, pb)) == 0) chk_arr("polygonToCells", h, pb, n, r);
                free(pb);
            }
            for (uint32_t fl = 0; fl < 4 && r == res + 1; fl += (mc_thorough ? 1 : 3))
                if (CALL(maxPolygonToCellsSizeExperimental(&poly, r, fl, &n)) == 0 && n < 4000) {
                    uint64_t *pb = calloc(n, 8);
                    if (CALL(polygonToCellsExperimental(&poly, r, fl, n, pb)) == 0)
                        chk_arr("polygonToCellsExperimental", h, pb, n, r);
                    free(pb);
                }
        }
    }
    mc_states(1);
}
static void op_globals(const McArg *a) {
    (void)a;
    uint64_t b[122];
    g_cl_fail = 0;
    if (CALL(getRes0Cells(b)) == 0) chk_arr("getRes0Cells", 0, b, 122, 0);
    for (int r = 0; r <= 15; r++) {
        uint64_t p[12];
        if (CALL(getPentagons(r, p)) == 0) chk_arr("getPentagons", 0, p, 12, r);
    }
    mc_nontrivial();
}

// decode(x): x is a hostile 64-bit value re-labelled as a directed edge (mode 2, direction a[1]) or vertex (mode 4, number a[1]). Whenever the
// library itself accepts it (isValidDirectedEdge / isValidVertex), every cell it decodes to must satisfy the predicate
static void op_decode(const McArg *a) {
    uint64_t x = a[0].u, o = 0, od[2] = {0, 0};
    int sub = (int)a[1].i;
    g_cl_fail = 0;
    uint64_t e = (x & ~(((uint64_t)15 << 59) | ((uint64_t)7 << 56))) | ((uint64_t)2 << 59) | ((uint64_t)(sub & 7) << 56);
    mc_trans(1);
    if (isValidDirectedEdge(e)) {
        mc_nontrivial();
        if (CALL(getDirectedEdgeOrigin(e, &o)) == 0) chk_out("getDirectedEdgeOrigin(accepted edge)", e, o, -1);
        if (CALL(getDirectedEdgeDestination(e, &o)) == 0) chk_out("getDirectedEdgeDestination(accepted edge)", e, o, -1);
        if (CALL(directedEdgeToCells(e, od)) == 0) chk_arr("directedEdgeToCells(accepted edge)", e, od, 2, -1);
    }
    uint64_t v = (x & ~(((uint64_t)15 << 59) | ((uint64_t)7 << 56))) | ((uint64_t)4 << 59) | ((uint64_t)(sub & 7) << 56);
    mc_trans(1);
    if (isValidVertex(v)) {
        LatLng g;
        mc_nontrivial();
        uint64_t owner = (v & ~(((uint64_t)15 << 59) | ((uint64_t)7 << 56))) | ((uint64_t)1 << 59);
        chk_out("owner cell of an accepted vertex", v, owner, -1);
        if (CALL(vertexToLatLng(v, &g))) mc_fail("vertexToLatLng fails on %" PRIx64 " which isValidVertex accepts", v);
    }
}
enum { OP_HDR, OP_WIN, OP_DEV, OP_PROD, OP_CNT, OP_CLOSURE, OP_GLOBALS, OP_DECODE };
const McOp MC_OPS[] = {{"hdr", "h", op_hdr},          {"win", "iiiii", op_win},   {"dev", "hiii", op_dev},
                       {"prod", "iiii", op_prod},     {"cnt", "ii", op_cnt},      {"closure", "h", op_closure},
                       {"globals", "", op_globals},   {"decode", "hi", op_decode}};
const int MC_NOPS = 8;

static void ph_A(void *u) {
    for (uint64_t t = 0; t < (1u << 19); t++) {
        if (!mc_mine(t)) continue;
        if (mc_tick(1023)) return;
        MC_RUN(OP_HDR, H(t));
    }
}
static const int B_BCS[] = {0, 4, 117, 121, 122, 127};
static void ph_B(void *u) {
    uint64_t idx = 0;
    for (int b = 0; b < 6; b++)
        for (int res = 0; res <= 15; res++)
            for (int off = 1; off <= 10; off++)
                for (int fill = 0; fill < 3; fill++)
                    for (int d0 = 0; d0 < 8; d0++, idx++) {
                        if (!mc_mine(idx)) continue;
                        if (mc_expired()) return;
                        MC_RUN(OP_WIN, I(B_BCS[b]), I(res), I(off), I(fill), I(d0));
                    }
}
static void ph_C(void *u) {
    uint64_t idx = 0;
    static const int bcs[] = {0, 4, 63, 121};
    for (int b = 0; b < 4; b++)
        for (int res = 0; res <= 15; res++)
            for (int pat = 0; pat < 6; pat++) {
                int d[15];
                for (int i = 0; i < res; i++)
                    d[i] = pat == 0 ? 0 : pat == 1 ? 6 : pat == 2 ? (i % 2 ? 0 : 2) : pat == 3 ? (i == res - 1 ? 2 : 0)
                                                                   : pat == 4 ? (i == 0 ? 0 : 5)
                                                                              : (i < res / 2 ? 0 : 3);
                uint64_t h = spec_mk(res, bcs[b], d);
                for (int p1 = 0; p1 <= 15; p1++)
                    for (int p2 = p1 ? p1 + 1 : 0; p2 <= (p1 ? 15 : 0); p2++)
                        for (int p3 = p2 ? p2 + 1 : 0; p3 <= (p2 ? 15 : 0); p3++, idx++) {
                            if (!mc_mine(idx)) continue;
                            if (mc_tick(255)) return;
                            MC_RUN(OP_DEV, H(h), I(p1), I(p2), I(p3));
                        }
            }
}
static void ph_D(void *u) {
    int nalph = *(int *)u;
    uint64_t idx = 0;
    static const int bcs[] = {0, 4};
    for (int al = 0; al < nalph; al++)
        for (int res = 0; res <= 15; res++)
            for (int b = 0; b < 2; b++)
                for (int pre = 0; pre < 1024; pre++, idx++) {
                    if (!mc_mine(idx)) continue;
                    if (mc_expired()) return;
                    MC_RUN(OP_PROD, I(al), I(res), I(bcs[b]), I(pre));
                }
}
static void ph_E(void *u) {
    int maxr = *(int *)u;
    uint64_t idx = 0;
    for (int r = maxr; r >= 0; r--)
        for (int bc = 0; bc < 128; bc++, idx++) {
            if (!mc_mine(idx)) continue;
            if (mc_expired()) return;
            MC_RUN(OP_CNT, I(r), I(bc));
        }
}
static U64Vec g_dom;
static void ph_closure(void *u) {
    for (size_t i = 0; i < g_dom.n; i++) {
        if (!mc_mine(i)) continue;
        if (mc_tick(63)) return;
        MC_RUN(OP_CLOSURE, H(g_dom.v[i]));
    }
    if (mc_wid == 0) MC_RUN(OP_GLOBALS, H(0));
}
static U64Vec g_idx;
static void ph_decode(void *u) {
    for (size_t i = 0; i < g_idx.n; i++) {
        if (!mc_mine(i)) continue;
        if (mc_tick(255)) return;
        for (int sub = 0; sub < 8; sub++) MC_RUN(OP_DECODE, H(g_idx.v[i]), I(sub));
    }
}

int main(int argc, char **argv) {
    mc_init(argc, argv);
    build_A();
    int nalph = mc_thorough ? 3 : 0, maxr = mc_thorough ? 6 : 5;
    snprintf(mc_bounds, sizeof mc_bounds,
             "A 2^19 headers x %d fields; B 8^6 windows x 10 offsets x 16 res x 6 base cells x 3 fills; C <=3 deviations on "
             "384 fills; D %d alphabets x 16 res x 2 base cells x 4^15 (a quick run also does the first alphabet for "
             "resolutions given by its deadline: none); E r<=%d; closure over FULL(0..%d) + FINE level %d (not neighbour-closed) at all 16 "
             "resolutions",
             A_n, nalph, maxr, mc_thorough ? 3 : 2, mc_thorough ? 1 : 2);
    mc_phase("A header sweep", ph_A, NULL);
    mc_phase("B window sweep", ph_B, NULL);
    mc_phase("C deviation sweep", ph_C, NULL);
    mc_phase("E small-resolution counts", ph_E, &maxr);
    if (nalph) mc_phase("D reduced-alphabet products", ph_D, &nalph);
    for (int r = 0; r <= (mc_thorough ? 3 : 2); r++) dom_full(r, &g_dom);
    for (int r = 3; r <= 15; r++) dom_fine_raw(r, mc_thorough ? 1 : 2, &g_dom);
    uv_sortuniq(&g_dom);
    mc_phase("closure driver", ph_closure, NULL);
    dom_idx(mc_thorough ? 1 : 0, &g_idx);
    mc_phase("closure of accepted edge / vertex indexes over the hostile alphabet", ph_decode, NULL);
    return mc_finish();
}
