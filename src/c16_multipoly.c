// BUILD: variant=alloc
// C16 -- cellsToLinkedMultiPolygon outlines exactly the union of the cells.
#include "mc.h"
#include "dom.h"
#include "ledger.h"

const char *MC_PROPERTY = "C16";
const char *MC_RULE =
    "set(origin, k, pattern): a cell set built from the geometric ball of radius k around origin (patterns: 0 full disk, 1 centre removed "
    "(hole), 2 outer ring + centre (island in a hole), 3 alternate cells removed, 4 two disjoint disks, 5 disk minus one ring-1 cell, 6 "
    "annulus k-1..k, 7 single ring-k cells only (many components), 8 nested donuts (rings 1 and 3), 9 nested donuts + isolated cells on rings 5 and 7, "
    "10 rings 0,2,4), skipped when the ball of radius k+1 contains a polar cell. "
    "cellsToLinkedMultiPolygon must succeed; polygons == edge-connected components of the set on G_geo; in every polygon the first loop "
    "has positive signed area and the others negative (fan area in a gnomonic chart about the origin); every loop has >= 3 vertices, "
    "each within 1e-12 rad of a boundary vertex of an input cell; sum of loop areas == sum of the cells' boundary fan areas within "
    "max(1e-9, 100*eps/edge) relative; after destroyLinkedMultiPolygon the allocator ledger is empty with no double/foreign free; on an "
    "error return nothing is left allocated; every loop of a polygon outlines cells of one and the same component (owner of its first vertex) "
    "and per component the loops outlining it enclose the area of its cells. polar(origin,k,pattern): disks/rings/perforated disks around "
    "and next to the two pole cells (success not required): on an error return the ledger must be empty, on success destroy must empty "
    "it. bad(origin,k,kind,pos): a disk with one non-cell (digit 7, base cell 127, edge mode, 0, ~0, wrong resolution field, duplicate, high bit) "
    "planted first / in the middle / last: same ledger-only oracle. Non-trivial: set with a hole, several components or a pentagon.";
const char *MC_ASSUME[] = {"G_geo for components; ledger allocator through H3_ALLOC_PREFIX", NULL};
const char *MC_CTR_NAMES[] = {"sets", "skipped_polar", "oracle_unavailable", "sets_with_holes", "multi_component_sets", "loops_checked", "polar_sets_error", "polar_sets_success", "bad_sets_error", "bad_sets_success", NULL};
const char *MC_MAX_NAMES[] = {"area_rel_diff", "vertex_offset_rad", NULL};
enum { OP_SET, OP_POLAR, OP_BAD, OP_BAND };
static OGraph G;
static int G_init;
#define MAXS 512
static int polar(uint64_t h) {
    LatLng c;
    CellBoundary cb;
    if (cellToLatLng(h, &c) || cellToBoundary(h, &cb)) return 1;
    double lo = 1e9, hi = -1e9;
    for (int i = 0; i < cb.numVerts; i++) {
        double x = geo_wrap(cb.verts[i].lng - c.lng);
        lo = fmin(lo, x), hi = fmax(hi, x);
    }
    return hi - lo > M_PI;
}
static void op_set(const McArg *a) {
    uint64_t origin = a[0].u;
    int k = (int)a[1].i, pat = (int)a[2].i, res = spec_res(origin);
    static uint64_t bc[4096];
    static int bd[4096];
    if (!G_init) og_init(&G, 1 << 16), G_init = 1;
    if (G.n > 2000000) og_clear(&G);
    int R = pat == 4 ? 3 * k + 3 : pat == 9 ? 8 : pat == 11 ? 6 : k + 1;
    int n = og_ball(&G, origin, R, bc, bd, 4096);
    if (n < 0) {
        mc_ctr(2, 1);
        return;
    }
    for (int i = 0; i < n; i++)
        if (polar(bc[i])) {
            mc_ctr(1, 1);
            return;
        }
    uint64_t set[MAXS];
    int ns = 0, pent = 0;
    uint64_t far = 0;
    if (pat == 4)
        for (int i = 0; i < n; i++)
            if (bd[i] == 2 * k + 2) far = bc[i];
    for (int i = 0; i < n && ns < MAXS; i++) {
        int d = bd[i], keep = 0;
        if (d > (pat == 9 ? 7 : pat == 11 ? 5 : k)) continue;
        switch (pat) {
            case 0: keep = 1; break;
            case 1: keep = d != 0; break;
            case 2: keep = d == 0 || d == k; if (k < 2) keep = 0; break;
            case 3: keep = !(spec_digit(bc[i], res) & 1) || res == 0; if (res == 0) keep = i % 2 == 0; break;
            case 4: keep = 1; break;
            case 5: keep = !(d == 1 && i == 1); break;
            case 6: keep = d >= k - 1 && k >= 2; break;
            case 7: keep = d == k && (i % 2 == 0) && k >= 1; break;
            case 8: keep = (d == 1 || d == 3) && k >= 3; break;                                         // nested donuts
            case 9: keep = d == 1 || d == 3 || ((d == 5 || d == 7) && i % 3 == 0); break;               // nested donuts + scattered isolated cells
            case 10: keep = d == 0 || d == 2 || d == 4; if (k < 4) keep = 0; break;                      // island in a donut hole in a donut hole
            case 11: keep = d == 1 || d == 3 || d == 5; break;                                            // three nested donuts around one hole
        }
        if (keep) set[ns++] = bc[i];
    }
    if (pat == 4) {
        if (!far) return;
        static uint64_t fc[4096];
        static int fd[4096];
        int m = og_ball(&G, far, k, fc, fd, 4096);
        if (m < 0) return;
        for (int i = 0; i < m && ns < MAXS; i++) set[ns++] = fc[i];
    }
    if (!ns) return;
    mc_ctr(0, 1);
    // components on G_geo
    int comp[MAXS];
    for (int i = 0; i < ns; i++) comp[i] = i, pent |= spec_is_pentagon(set[i]);
    for (int i = 0; i < ns; i++) {
        uint64_t nb[8];
        int m = og_nbrs(&G, set[i], nb);
        if (m < 0) {
            mc_ctr(2, 1);
            return;
        }
        for (int j = 0; j < ns; j++) {
            int adj = 0;
            for (int q = 0; q < m; q++) adj |= nb[q] == set[j];
            if (adj && comp[i] != comp[j]) {
                int from = comp[j], to = comp[i];
                for (int q = 0; q < ns; q++)
                    if (comp[q] == from) comp[q] = to;
            }
        }
    }
    int ncomp = 0;
    for (int i = 0; i < ns; i++) ncomp += comp[i] == i;
    if (ncomp > 1) mc_ctr(4, 1);
    // reference area and vertex pool
    LatLng c0;
    cellToLatLng(origin, &c0);
    double cellA = 0;
    static LatLng pool[MAXS * 10];
    static int powner[MAXS * 10];
    double compA[MAXS], loopAc[MAXS];
    memset(compA, 0, sizeof compA);
    memset(loopAc, 0, sizeof loopAc);
    int npool = 0;
    for (int i = 0; i < ns; i++) {
        LatLng c;
        CellBoundary cb;
        if (cellToLatLng(set[i], &c) || cellToBoundary(set[i], &cb)) {
            mc_ctr(2, 1);
            return;
        }
        double ca = fanArea(c, cb.verts, cb.numVerts);
        cellA += ca;
        compA[comp[i]] += ca;
        for (int q = 0; q < cb.numVerts; q++) powner[npool] = i, pool[npool++] = cb.verts[q];
    }
    lg_reset();
    lg_arm(0, 0, 0);
    LinkedGeoPolygon out;
    memset(&out, 0, sizeof out);
    mc_trans(2);
    H3Error e = cellsToLinkedMultiPolygon(set, ns, &out);
    if (e) {
        if (lg_live || lg_errors)
            mc_fail("cellsToLinkedMultiPolygon returned %d and left %ld blocks allocated (%ld bad frees)", e, lg_live, lg_errors);
        else
            mc_fail("cellsToLinkedMultiPolygon returned %d for %d distinct valid res-%d cells (%d components) not reaching a pole", e, ns, res, ncomp);
        return;
    }
    int npoly = 0, nholes = 0;
    double polyA = 0;
    for (LinkedGeoPolygon *p = &out; p && !mc_w->cur_failed; p = p->next) {
        if (!p->first) {
            mc_fail("result contains an empty polygon");
            break;
        }
        npoly++;
        int li = 0, pcomp = -1;
        for (LinkedGeoLoop *l = p->first; l && !mc_w->cur_failed; l = l->next, li++) {
            static LatLng v[8192];
            int nv = 0;
            for (LinkedLatLng *q = l->first; q && nv < 8192; q = q->next) v[nv++] = q->vertex;
            mc_ctr(5, 1);
            if (nv < 3) {
                mc_fail("polygon %d loop %d has %d vertices", npoly - 1, li, nv);
                break;
            }
            int lcomp = -1;
            for (int i = 0; i < nv; i++) {
                double best = 1e9;
                int bq = -1;
                for (int q = 0; q < npool; q++) {
                    if (fabs(pool[q].lat - v[i].lat) > 1e-9) continue;
                    double d = adist(pool[q], v[i]);
                    if (d < best) best = d, bq = q;
                }
                if (i == 0 && bq >= 0) lcomp = comp[powner[bq]];
                mc_max(1, best < 1e8 ? best : 0);
                if (best > 1e-12) {
                    mc_fail("polygon %d loop %d vertex %d (%.15g,%.15g) is not a boundary vertex of any input cell (nearest %.3g rad)", npoly - 1, li, i, v[i].lat, v[i].lng, best);
                    break;
                }
            }
            double A = fanArea(c0, v, nv > 64 ? 0 : nv);
            if (nv > 64) {  // fanArea helper is limited to 64 points: accumulate directly
                A = 0;
                P2 prev = gno(c0, v[nv - 1]);
                for (int i = 0; i < nv; i++) {
                    P2 cur = gno(c0, v[i]);
                    P2 pr[2] = {prev, cur};
                    double ra = hypot(pr[0].x, pr[0].y), rb = hypot(pr[1].x, pr[1].y);
                    if (ra > 0 && rb > 0) {
                        double ta = ra / (1 + sqrt(1 + ra * ra)), tb = rb / (1 + sqrt(1 + rb * rb));
                        double sinC = (pr[0].x * pr[1].y - pr[0].y * pr[1].x) / (ra * rb), cosC = (pr[0].x * pr[1].x + pr[0].y * pr[1].y) / (ra * rb);
                        A += 2 * atan2(ta * tb * sinC, 1 + ta * tb * cosC);
                    }
                    prev = cur;
                }
            }
            // every loop of a polygon must outline cells of one and the same edge-connected component (a corner is shared only by
            // mutually adjacent cells, so the owner of the loop's first vertex identifies the component)
            if (lcomp >= 0) {
                loopAc[lcomp] += A;
                if (li == 0) pcomp = lcomp;
                if (li > 0 && pcomp >= 0 && lcomp != pcomp)
                    mc_fail("polygon %d: hole %d outlines cells of a different component than the polygon's outer loop (the hole belongs to another polygon)", npoly - 1, li);
            }
            if (li == 0 && !(A > 0)) mc_fail("polygon %d: outer loop is not counter-clockwise (signed area %.3g)", npoly - 1, A);
            if (li > 0) {
                nholes++;
                if (!(A < 0)) mc_fail("polygon %d: hole %d is not clockwise (signed area %.3g)", npoly - 1, li, A);
            }
            polyA += A;
        }
    }
    if (nholes) mc_ctr(3, 1);
    if (nholes || ncomp > 1 || pent) mc_nontrivial();
    if (!mc_w->cur_failed) {
        if (npoly != ncomp) mc_fail("%d polygons returned for a set with %d edge-connected components (%d cells)", npoly, ncomp, ns);
        double rel = fabs(polyA - cellA) / cellA, tol = fmax(1e-9, 100 * 2.2e-16 / (1.1 / pow(sqrt(7.0), res) * 0.4));
        mc_max(0, rel);
        if (rel > tol) mc_fail("enclosed area %.17g differs from the sum of the cells' areas %.17g (rel %.3g, tol %.3g; %d cells, %d polygons, %d holes)", polyA, cellA, rel, tol, ns, npoly, nholes);
        for (int i = 0; i < ns && !mc_w->cur_failed; i++)
            if (comp[i] == i && fabs(loopAc[i] - compA[i]) / cellA > tol)
                mc_fail("component of cell %" PRIx64 ": loops outlining it enclose %.17g, its cells have area %.17g (whole set balanced: %d polygons, %d holes)", set[i], loopAc[i], compA[i], npoly, nholes);
    }
    destroyLinkedMultiPolygon(&out);
    if (!mc_w->cur_failed && (lg_live || lg_errors)) mc_fail("after destroyLinkedMultiPolygon %ld blocks remain allocated, %ld double/foreign frees", lg_live, lg_errors);
}
// sets whose footprint reaches or encloses a pole: the property does not require success there, but its last clause still holds:
// "when the function reports an error nothing is left allocated" (and a success must be destroyable without a leak)
static void op_polar(const McArg *a) {
    uint64_t origin = a[0].u;
    int k = (int)a[1].i, pat = (int)a[2].i;
    static uint64_t bc[4096];
    static int bd[4096];
    if (!G_init) og_init(&G, 1 << 16), G_init = 1;
    int n = og_ball(&G, origin, k, bc, bd, 4096);
    if (n < 0) {
        mc_ctr(2, 1);
        return;
    }
    uint64_t set[MAXS];
    int ns = 0;
    for (int i = 0; i < n && ns < MAXS; i++) {
        int d = bd[i], keep = 1;
        switch (pat) {
            case 0: keep = 1; break;
            case 1: keep = d != 0; break;
            case 2: keep = d != 0 && !(d == k - 1 && i % 3 == 0); break;
            case 3: keep = d == k; break;
            case 4: keep = d == k || d == k - 2; break;
            case 5: keep = d != 0 && !(d == k - 1 && i % 2 == 0) && !(d == k - 3); break;
        }
        if (keep) set[ns++] = bc[i];
    }
    if (!ns) return;
    lg_reset();
    lg_arm(0, 0, 0);
    LinkedGeoPolygon out;
    memset(&out, 0, sizeof out);
    mc_trans(1);
    H3Error e = cellsToLinkedMultiPolygon(set, ns, &out);
    mc_ctr(e ? 6 : 7, 1);
    if (e) {
        mc_nontrivial();
        if (lg_live || lg_errors) mc_fail("cellsToLinkedMultiPolygon returned error %d and left %ld blocks allocated (%ld double/foreign frees); %d cells around a pole", e, lg_live, lg_errors, ns);
        return;
    }
    destroyLinkedMultiPolygon(&out);
    if (lg_live || lg_errors) mc_fail("after destroyLinkedMultiPolygon %ld blocks remain allocated, %ld double/foreign frees (%d cells around a pole)", lg_live, lg_errors, ns);
}
// bad(origin, k, kind, pos): a disk into which something that is not a cell of the set's resolution is planted at position pos (first,
// middle, last): whatever the function returns, an error return must leave nothing allocated and a success must be destroyable
static void op_bad(const McArg *a) {
    uint64_t origin = a[0].u;
    int k = (int)a[1].i, kind = (int)a[2].i, where = (int)a[3].i;
    static uint64_t bc[4096];
    static int bd[4096];
    if (!G_init) og_init(&G, 1 << 16), G_init = 1;
    int n = og_ball(&G, origin, k, bc, bd, 4096);
    if (n < 2) return;
    uint64_t set[MAXS];
    int ns = 0;
    for (int i = 0; i < n && ns < MAXS - 1; i++) set[ns++] = bc[i];
    int pos = where == 0 ? 0 : where == 1 ? ns / 2 : ns - 1, res = spec_res(origin);
    uint64_t bad = 0;
    switch (kind) {
        case 0: bad = spec_set_digit(set[pos], res ? res : 1, 7); break;          // digit 7 inside the resolution (res 0: digit 1 != 7)
        case 1: bad = set[pos] | ((uint64_t)127 << 45); break;                     // base cell 127
        case 2: bad = set[pos] ^ ((uint64_t)3 << 59); break;                       // an edge-mode index
        case 3: bad = 0; break;                                                    // H3_NULL
        case 4: bad = ~(uint64_t)0; break;
        case 5: bad = res < 15 ? (set[pos] & ~((uint64_t)15 << 52)) | ((uint64_t)(res + 1) << 52) : set[pos]; break;  // resolution field off by one
        case 6: bad = set[(pos + 1) % ns]; break;                                  // duplicate of another member
        case 7: bad = set[pos] | ((uint64_t)1 << 63); break;                       // high bit
    }
    set[pos] = bad;
    lg_reset();
    lg_arm(0, 0, 0);
    LinkedGeoPolygon out;
    memset(&out, 0, sizeof out);
    mc_trans(1);
    H3Error e = cellsToLinkedMultiPolygon(set, ns, &out);
    mc_ctr(e ? 8 : 9, 1);
    if (e) {
        mc_nontrivial();
        if (lg_live || lg_errors)
            mc_fail("cellsToLinkedMultiPolygon returned error %d for a set with a non-cell (%" PRIx64 ") at position %d of %d and left %ld blocks allocated (%ld bad frees)", e, bad, pos, ns, lg_live, lg_errors);
        return;
    }
    destroyLinkedMultiPolygon(&out);
    if (lg_live || lg_errors) mc_fail("after destroyLinkedMultiPolygon %ld blocks remain allocated, %ld double/foreign frees (set with %" PRIx64 " planted)", lg_live, lg_errors, bad);
}
// band(res, latmax, lngmax, m): all cells of resolution res (<= 2) whose centre has |lat| < latmax deg and |lng - lng0| < lngmax deg (a set
// that spans far more than 180 degrees of longitude but reaches neither a pole nor -- for lng0 = 0 -- the antimeridian), minus m isolated
// interior cells. Too wide for a chart, so the oracle is structural: success, one polygon, 1 + m loops, every loop with >= 3 vertices,
// destroy empties the ledger
static void op_band(const McArg *a) {
    int res = (int)a[0].i, m = (int)a[3].i;
    double latmax = a[1].i * M_PI / 180, lngmax = (a[2].i % 1000) * M_PI / 180, lng0 = (a[2].i / 1000) * M_PI / 180;
    if (res < 0 || res > 2) return;
    U64Vec f = {0}, s = {0};
    dom_full(res, &f);
    for (size_t i = 0; i < f.n; i++) {
        LatLng c;
        if (cellToLatLng(f.v[i], &c)) continue;
        if (fabs(c.lat) < latmax && fabs(geo_wrap(c.lng - lng0)) < lngmax) uv_push(&s, f.v[i]);
    }
    uv_free(&f);
    if (s.n < 8) {
        uv_free(&s);
        return;
    }
    if (!G_init) og_init(&G, 1 << 16), G_init = 1;
    // the set must be one component (BFS inside the set) -- otherwise the expectation below does not apply
    uv_sortuniq(&s);
    char *seen = calloc(s.n, 1);
    size_t *stack = malloc(s.n * sizeof *stack), sp = 0, reached = 0;
    stack[sp++] = 0, seen[0] = 1;
    while (sp) {
        size_t i = stack[--sp];
        reached++;
        uint64_t nb[8];
        int k = og_nbrs(&G, s.v[i], nb);
        for (int q = 0; q < k; q++) {
            uint64_t *hit = bsearch(&nb[q], s.v, s.n, 8, uv_cmp);
            if (hit && !seen[hit - s.v]) seen[hit - s.v] = 1, stack[sp++] = hit - s.v;
        }
    }
    int connected = reached == s.n;
    // remove m isolated interior cells (all six neighbours in the set, no two removed cells adjacent)
    int removed = 0;
    uint64_t rem[16];
    for (size_t i = s.n / 3; i < s.n && removed < m; i += 7) {
        uint64_t nb[8];
        int k = og_nbrs(&G, s.v[i], nb), ok = k == 6;
        for (int q = 0; q < k && ok; q++) {
            ok = bsearch(&nb[q], s.v, s.n, 8, uv_cmp) != NULL;
            for (int w = 0; w < removed && ok; w++) ok = nb[q] != rem[w];
        }
        for (int w = 0; w < removed && ok; w++) ok = s.v[i] != rem[w];
        if (ok) rem[removed++] = s.v[i];
    }
    uint64_t *set = malloc(s.n * 8);
    int ns = 0;
    for (size_t i = 0; i < s.n; i++) {
        int drop = 0;
        for (int w = 0; w < removed; w++) drop |= s.v[i] == rem[w];
        if (!drop) set[ns++] = s.v[i];
    }
    free(seen), free(stack);
    lg_reset();
    lg_arm(0, 0, 0);
    LinkedGeoPolygon out;
    memset(&out, 0, sizeof out);
    mc_trans(2);
    mc_nontrivial();
    H3Error e = cellsToLinkedMultiPolygon(set, ns, &out);
    if (e) {
        if (lg_live || lg_errors) mc_fail("cellsToLinkedMultiPolygon returned %d and left %ld blocks allocated", e, lg_live);
        else if (connected) mc_fail("cellsToLinkedMultiPolygon returned %d for %d distinct valid res-%d cells forming one band |lat|<%ld, |lng-%ld|<%ld degrees with %d single-cell holes (no pole, %s)", e, ns, res, (long)a[1].i, (long)(a[2].i / 1000), (long)(a[2].i % 1000), removed, a[2].i / 1000 ? "crossing the antimeridian" : "not touching the antimeridian");
    } else {
        int npoly = 0, nloops = 0, small = 0;
        for (LinkedGeoPolygon *p = &out; p; p = p->next) {
            if (!p->first) break;
            npoly++;
            for (LinkedGeoLoop *l = p->first; l; l = l->next) {
                nloops++;
                int nv = 0;
                for (LinkedLatLng *q = l->first; q; q = q->next) nv++;
                small |= nv < 3;
            }
        }
        if (connected && (npoly != 1 || nloops != 1 + removed || small))
            mc_fail("band set (%d cells, one component, %d single-cell holes): %d polygons with %d loops in total (expected 1 polygon, %d loops)%s", ns, removed, npoly, nloops, 1 + removed, small ? ", a loop with < 3 vertices" : "");
        destroyLinkedMultiPolygon(&out);
        if (!mc_w->cur_failed && (lg_live || lg_errors)) mc_fail("after destroyLinkedMultiPolygon %ld blocks remain allocated, %ld double/foreign frees", lg_live, lg_errors);
    }
    free(set);
    uv_free(&s);
}
const McOp MC_OPS[] = {{"set", "hii", op_set}, {"polar", "hii", op_polar}, {"bad", "hiii", op_bad}, {"band", "iiii", op_band}};
const int MC_NOPS = 4;
static U64Vec g_dom;
static int g_kmax;
static void ph_sets(void *u) {
    size_t lo = g_dom.n * mc_wid / mc_nw, hi = g_dom.n * (mc_wid + 1) / mc_nw;
    for (size_t i = lo; i < hi; i++) {
        if (mc_tick(7)) return;
        uint64_t h = g_dom.v[i];
        int res = spec_res(h), kmax = res == 0 ? 1 : res == 1 ? 2 : g_kmax;
        mc_states(1);
        for (int k = 0; k <= kmax; k++)
            for (int pat = 0; pat <= 11; pat++) {
                if (k == 0 && pat) continue;
                if (pat == 4 && res < 2) continue;
                if (pat == 11) continue;  // driven by ph_nest3
                if ((pat == 8 || pat == 9) && (k != 3 || res < 2)) continue;
                if (pat == 10 && (k != 4 || res < 2)) continue;
                MC_RUN(OP_SET, H(h), I(k), I(pat));
            }
    }
}
static void ph_band(void *u) {
    static const int lats[] = {25, 50}, lngs[] = {100, 150};
    uint64_t idx = 0;
    for (int res = 0; res <= 2; res++)
        for (int li = 0; li < 2; li++)
            for (int gi = 0; gi < 2; gi++)
                for (int l0 = 0; l0 <= 180; l0 += 90)
                    for (int m = 0; m <= 3; m += (m ? 2 : 1), idx++) {
                        if (!mc_mine(idx)) continue;
                        if (mc_expired()) return;
                        MC_RUN(OP_BAND, I(res), I(lats[li]), I(lngs[gi] + 1000 * l0), I(m));
                    }
}
// triple nesting (patterns 10 and 11 need k = 4 / rings to 5): a thinned set of origins in the quick tier
static void ph_nest3(void *u) {
    uint64_t idx = 0;
    for (size_t i = 0; i < g_dom.n; i += (mc_thorough ? 1 : 3), idx++) {
        if (!mc_mine(idx)) continue;
        if (mc_expired()) return;
        if (spec_res(g_dom.v[i]) < 2) continue;
        MC_RUN(OP_SET, H(g_dom.v[i]), I(4), I(10));
        MC_RUN(OP_SET, H(g_dom.v[i]), I(5), I(11));
    }
}
// disks around cells that sit on the 30 icosahedron edges (where boundaries get distortion vertexes and vertexes lie exactly on an edge)
static void ph_edges(void *u) {
    static const int ress[] = {15, 13, 11, 9, 7, 5, 14, 12};
    uint64_t idx = 0;
    for (int ri = 0; ri < (mc_thorough ? 8 : 5); ri++) {
        U64Vec e = {0};
        dom_edge(ress[ri], mc_thorough ? 1200 : 300, 0, &e);
        for (size_t i = 0; i < e.n; i++, idx++) {
            if (!mc_mine(idx)) continue;
            if (mc_tick(15)) {
                uv_free(&e);
                return;
            }
            MC_RUN(OP_SET, H(e.v[i]), I(2), I(0));
            MC_RUN(OP_SET, H(e.v[i]), I(1), I(1));
        }
        uv_free(&e);
    }
}
static void ph_bad(void *u) {
    uint64_t idx = 0;
    for (size_t i = 0; i < g_dom.n; i += (mc_thorough ? 11 : 53))
        for (int k = 1; k <= 2; k++)
            for (int kind = 0; kind < 8; kind++)
                for (int w = 0; w < 3; w++, idx++) {
                    if (!mc_mine(idx)) continue;
                    if (mc_expired()) return;
                    MC_RUN(OP_BAD, H(g_dom.v[i]), I(k), I(kind), I(w));
                }
}
static void ph_polar(void *u) {
    uint64_t idx = 0;
    for (int res = 0; res <= (mc_thorough ? 15 : 9); res++)
        for (int pole = 0; pole < 2; pole++) {
            LatLng g = {pole ? -M_PI / 2 : M_PI / 2, 0.3};
            uint64_t h = 0;
            if (latLngToCell(&g, res, &h)) continue;
            for (int k = 1; k <= (res == 0 ? 2 : res == 1 ? 4 : 6); k++)
                for (int pat = 0; pat <= 5; pat++, idx++) {
                    if (!mc_mine(idx)) continue;
                    MC_RUN(OP_POLAR, H(h), I(k), I(pat));
                    // and the same patterns centred one and two steps away from the pole cell
                    uint64_t nb[8];
                    if (!G_init) og_init(&G, 1 << 16), G_init = 1;
                    int m = og_nbrs(&G, h, nb);
                    for (int q = 0; q < m; q += 2) MC_RUN(OP_POLAR, H(nb[q]), I(k), I(pat));
                }
        }
}
int main(int argc, char **argv) {
    mc_init(argc, argv);
    g_kmax = mc_thorough ? 4 : 3;  // pattern 10 needs k = 4: thorough only
    for (int r = 0; r <= 15; r++) {
        U64Vec f = {0};
        if (r <= 1)
            dom_full(r, &f);
        else
            dom_fine_raw(r, 2, &f);
        for (size_t i = 0; i < f.n; i += (r <= 1 ? 1 : mc_thorough ? 3 : 11)) uv_push(&g_dom, f.v[i]);
        uv_free(&f);
    }
    snprintf(mc_bounds, sizeof mc_bounds, "origins: FULL(0..1) + FINE level 2 (%s) at resolutions 2..15 = %zu origins; k<=%d (1 at res 0, 2 at res 1); 11 patterns (full, centre removed, island in hole, alternate, two disks, one neighbour removed, thick ring, scattered ring, nested donuts, nested donuts + isolated cells, triple nesting)", mc_thorough ? "every 3rd" : "every 11th", g_dom.n, g_kmax);
    mc_phase("sets around the poles (error clause)", ph_polar, NULL);
    mc_phase("sets with a planted non-cell (error clause)", ph_bad, NULL);
    mc_phase("wide bands at resolutions 0-2", ph_band, NULL);
    mc_phase("triple nesting from thinned origins", ph_nest3, NULL);
    mc_phase("disks around cells on the icosahedron edges", ph_edges, NULL);
    // the large catalogue last, so that a deadline cuts only it short
    mc_phase("set catalogue", ph_sets, NULL);
    return mc_finish();
}
